From Coq Require Import List Bool Arith Lia QArith Reals Qreals.
From TJ Require Import Num Linalg NumR NumQ Chunk Autojac.
From TJ.proofs Require Import AutojacBasics EntrySpec C20Proofs.
Import ListNotations.
(* TransferProofs.v — the autojac model commutes with every map of numbers that preserves
   0, 1, + and * (PART 1), in particular with Q2R : Q -> R between the executable instance QN
   and the instance RN at which the theorems are proved (PART 2). *)
From TJ Require Import Agg.
Local Open Scope nat_scope.

(* ---------- generic list facts ---------- *)
Definition rmap {A B : Type} (f : A -> B) (r : res A) : res B :=
  match r with Ok a => Ok (f a) | Err e => Err e end.

Lemma tp_split_by_map {A B : Type} (f : A -> B) : forall lens v,
  split_by lens (map f v) = map (map f) (split_by lens v).
Proof.
  induction lens as [|n lens IH]; intros v; cbn [split_by map]; [reflexivity|].
  rewrite firstn_map, skipn_map, IH. reflexivity.
Qed.

Lemma tp_assoc_map_snd {A B : Type} (f : A -> B) (k : nat) : forall l : list (nat * A),
  assoc k (map (fun kv => (fst kv, f (snd kv))) l) = option_map f (assoc k l).
Proof.
  induction l as [|[k' v] l IH]; [reflexivity|].
  cbn [map fst snd assoc]. destruct (Nat.eqb k k'); [reflexivity | exact IH].
Qed.

Lemma tp_combine_map_r {A B C : Type} (f : B -> C) : forall (l : list A) (l' : list B),
  combine l (map f l') = map (fun kp => (fst kp, f (snd kp))) (combine l l').
Proof.
  induction l as [|x l IH]; intros l'; [reflexivity|].
  destruct l' as [|y l']; [reflexivity|]. cbn [map combine fst snd]. rewrite IH. reflexivity.
Qed.

Lemma tp_flat_map_map {A B C : Type} (f : A -> B) (g : B -> list C) : forall l,
  flat_map g (map f l) = flat_map (fun x => g (f x)) l.
Proof. induction l as [|x l IH]; [reflexivity|]. cbn [map flat_map]. rewrite IH. reflexivity. Qed.

Lemma tp_map_repeat {A B : Type} (f : A -> B) (x : A) : forall n,
  map f (repeat x n) = repeat (f x) n.
Proof. induction n as [|n IH]; [reflexivity|]. cbn [repeat map]. rewrite IH. reflexivity. Qed.

Section Hom.
Context {T U : Type} (NT : Num T) (NU : Num U) (phi : T -> U).
Hypothesis phi_0 : phi (n0 NT) = n0 NU.
Hypothesis phi_1 : phi (n1 NT) = n1 NU.
Hypothesis phi_add : forall a b, phi (nadd NT a b) = nadd NU (phi a) (phi b).
Hypothesis phi_mul : forall a b, phi (nmul NT a b) = nmul NU (phi a) (phi b).

Definition mvec (v : list T) : list U := map phi v.
Definition mmat (M : list (list T)) : list (list U) := map mvec M.
Definition mtens (v : @tens T) : @tens U := mkTens (t_batched v) (t_trail v) (mmat (t_rows v)).
Definition mdict (d : @tdict T) : @tdict U :=
  mkDict (dk d) (map (fun kv => (fst kv, mtens (snd kv))) (ditems d)).
Definition mgval (g : @gval T) : @gval U := mkG (g_sid g) (mtens (g_val g)).
Definition mstore (s : @store T) : @store U :=
  mkStore (map (fun kv => (fst kv, mgval (snd kv))) (s_grads s)) (s_freed s) (s_log s) (s_next s).
Definition mprog (P : prog T) : prog U :=
  mkProg U (p_shape P) (fun o i => mmat (p_D P o i)) (p_reach P) (p_req P) (p_expects P) (p_gfn P)
         (p_edge P) (p_next P) (p_acc P) (p_saved P) (p_nnodes P).
Definition mres (r : res (@tdict T)) : res (@tdict U) :=
  match r with Ok d => Ok (mdict d) | Err e => Err e end.
(* the aggregator on the U side agrees with the one on the T side *)
Definition agg_hom (A : list (list T) -> res (list T)) (A' : list (list U) -> res (list U)) : Prop :=
  forall J, A' (mmat J) = match A J with Ok v => Ok (mvec v) | Err e => Err e end.

Local Notation mitems := (map (fun kv : tid * @tens T => (fst kv, mtens (snd kv)))).

(* ---------- Linalg ---------- *)
Lemma mvec_cons x v : mvec (x :: v) = phi x :: mvec v.
Proof. reflexivity. Qed.
Lemma mmat_cons r M : mmat (r :: M) = mvec r :: mmat M.
Proof. reflexivity. Qed.
Lemma mvec_length v : length (mvec v) = length v.
Proof. apply map_length. Qed.
Lemma mmat_length M : length (mmat M) = length M.
Proof. apply map_length. Qed.

Lemma mvec_vzero n : mvec (vzero NT n) = vzero NU n.
Proof.
  unfold vzero. induction n as [|n IH]; cbn [repeat]; [reflexivity|].
  rewrite mvec_cons, IH, phi_0. reflexivity.
Qed.

Lemma mvec_vones n : mvec (vones NT n) = vones NU n.
Proof.
  unfold vones. induction n as [|n IH]; cbn [repeat]; [reflexivity|].
  rewrite mvec_cons, IH, phi_1. reflexivity.
Qed.

Lemma mvec_onehot : forall n i x, mvec (onehot NT n i x) = onehot NU n i (phi x).
Proof.
  induction n as [|n IH]; intros i x; [reflexivity|].
  destruct i as [|i]; cbn [onehot]; rewrite mvec_cons.
  - rewrite mvec_vzero. reflexivity.
  - rewrite IH, phi_0. reflexivity.
Qed.

Lemma mvec_vadd : forall a b, mvec (vadd NT a b) = vadd NU (mvec a) (mvec b).
Proof.
  induction a as [|x a IH]; intros b; [reflexivity|].
  destruct b as [|y b]; [reflexivity|].
  cbn [vadd]. rewrite !mvec_cons. cbn [vadd]. rewrite IH, phi_add. reflexivity.
Qed.

Lemma mvec_vscale c v : mvec (vscale NT c v) = vscale NU (phi c) (mvec v).
Proof. unfold vscale, mvec. rewrite !map_map. apply map_ext. intros x. apply phi_mul. Qed.

Lemma mvec_vm n : forall w M, mvec (vm NT n w M) = vm NU n (mvec w) (mmat M).
Proof.
  induction w as [|x w IH]; intros M.
  - cbn [vm mvec map]. apply mvec_vzero.
  - destruct M as [|r M].
    + cbn [vm mvec map mmat]. apply mvec_vzero.
    + rewrite mvec_cons, mmat_cons. cbn [vm]. rewrite mvec_vadd, mvec_vscale, IH. reflexivity.
Qed.

Lemma mvec_concat M : mvec (concat M) = concat (mmat M).
Proof. apply concat_map. Qed.

Lemma split_by_mvec lens v : split_by lens (mvec v) = mmat (split_by lens v).
Proof. apply tp_split_by_map. Qed.

Lemma nth_mmat r M : nth r (mmat M) [] = mvec (nth r M []).
Proof. change (@nil U) with (mvec []). apply map_nth. Qed.

Lemma nth_mvec r v : nth r (mvec v) (n0 NU) = phi (nth r v (n0 NT)).
Proof. rewrite <- phi_0. apply map_nth. Qed.

Lemma ncols_mmat J : ncols (mmat J) = ncols J.
Proof. destruct J as [|r J]; [reflexivity|]. cbn [mmat map ncols]. apply mvec_length. Qed.

Lemma combine_rows_hom J w : mvec (combine_rows NT J w) = combine_rows NU (mmat J) (mvec w).
Proof. unfold combine_rows. rewrite ncols_mmat. apply mvec_vm. Qed.

(* ---------- tensors, dictionaries, stores ---------- *)
Lemma full_shape_mtens v : full_shape (mtens v) = full_shape v.
Proof. unfold full_shape, mtens. cbn [t_batched t_rows t_trail]. rewrite mmat_length. reflexivity. Qed.

Lemma flat_mtens v : flat (mtens v) = mvec (flat v).
Proof. unfold flat, mtens. cbn [t_rows]. symmetry. apply mvec_concat. Qed.

Lemma row0_mtens v : row0 (mtens v) = mvec (row0 v).
Proof. unfold row0, mtens. cbn [t_rows]. apply nth_mmat. Qed.

Lemma nrows_mtens v : nrows (mtens v) = nrows v.
Proof. unfold nrows, mtens. cbn [t_rows]. apply mmat_length. Qed.

Lemma mtens_empty : mtens empty_tens = empty_tens.
Proof. reflexivity. Qed.

Lemma dkeys_mdict d : dkeys (mdict d) = dkeys d.
Proof. unfold dkeys, mdict. cbn [ditems]. rewrite map_map. apply map_ext. intros kv. reflexivity. Qed.

Lemma dget_mdict d k : dget (mdict d) k = option_map mtens (dget d k).
Proof. unfold dget, mdict. cbn [ditems]. apply tp_assoc_map_snd. Qed.

Lemma dget'_mdict d k : dget' (mdict d) k = mtens (dget' d k).
Proof. unfold dget'. rewrite dget_mdict. destruct (dget d k); reflexivity. Qed.

Lemma sget_mstore s t : sget (mstore s) t = option_map mgval (sget s t).
Proof. unfold sget, mstore. cbn [s_grads]. apply tp_assoc_map_snd. Qed.

Lemma keys_mitems (items : list (tid * @tens T)) : map fst (mitems items) = map fst items.
Proof. rewrite map_map. apply map_ext. intros kv. reflexivity. Qed.

Section WithProg.
Variable P : prog T.

Lemma pnumel_mprog t : pnumel (mprog P) t = pnumel P t.
Proof. reflexivity. Qed.

Lemma mk_dict_hom k items : mk_dict (mprog P) k (mitems items) = mres (mk_dict P k items).
Proof.
  unfold mk_dict.
  assert (E : map (fun kv : tid * @tens U => (p_shape (mprog P) (fst kv), full_shape (snd kv)))
                  (mitems items)
              = map (fun kv : tid * @tens T => (p_shape P (fst kv), full_shape (snd kv))) items).
  { rewrite map_map. apply map_ext. intros [k0 v]. cbn [fst snd mprog p_shape].
    rewrite full_shape_mtens. reflexivity. }
  rewrite E. destruct (shapes_ok _ _); reflexivity.
Qed.

(* ---------- the engine ---------- *)
Lemma exec_nodes_mprog outs ins : exec_nodes (mprog P) outs ins = exec_nodes P outs ins.
Proof. reflexivity. Qed.

Lemma ag_sweep_hom s outs ins rows batched retain :
  ag_sweep (mprog P) (mstore s) outs ins rows batched retain
  = (fst (ag_sweep P s outs ins rows batched retain),
     mstore (snd (ag_sweep P s outs ins rows batched retain))).
Proof.
  unfold ag_sweep. rewrite exec_nodes_mprog. cbn [mprog p_req p_saved mstore s_freed s_grads s_log s_next].
  destruct (negb _); [reflexivity|].
  destruct (existsb _ _); reflexivity.
Qed.

Lemma vjp_hom : forall outs cots i,
  vjp NU (mprog P) outs (mmat cots) i = mvec (vjp NT P outs cots i).
Proof.
  unfold vjp. induction outs as [|o outs IH]; intros cots i.
  - cbn [combine fold_right]. rewrite mvec_vzero. reflexivity.
  - destruct cots as [|c cots].
    + cbn [mmat map combine fold_right]. rewrite mvec_vzero. reflexivity.
    + rewrite mmat_cons. cbn [combine fold_right fst snd]. rewrite IH.
      rewrite mvec_vadd, mvec_vm. reflexivity.
Qed.

Lemma ag_value_hom outs cots i :
  ag_value NU (mprog P) outs (mmat cots) i = option_map mvec (ag_value NT P outs cots i).
Proof.
  unfold ag_value. cbn [mprog p_reach]. destruct (existsb _ outs); [|reflexivity].
  cbn [option_map]. rewrite <- vjp_hom. reflexivity.
Qed.

Lemma materialize_hom i g :
  materialize NU (mprog P) i (option_map mvec g) = mvec (materialize NT P i g).
Proof. destruct g as [v|]; cbn [option_map materialize]; [reflexivity|]. rewrite mvec_vzero. reflexivity. Qed.

Lemma mat_ag_hom outs cots i :
  materialize NU (mprog P) i (ag_value NU (mprog P) outs (mmat cots) i)
  = mvec (materialize NT P i (ag_value NT P outs cots i)).
Proof. rewrite ag_value_hom. apply materialize_hom. Qed.

(* ---------- the _compute methods that do not touch the store ---------- *)
Lemma init_compute_hom vals : init_compute NU (mprog P) vals = mres (init_compute NT P vals).
Proof.
  unfold init_compute. rewrite <- mk_dict_hom. f_equal. rewrite map_map. apply map_ext. intros v.
  cbn [fst snd]. unfold plain, mtens. cbn [t_batched t_trail t_rows mmat map].
  rewrite mvec_vones. reflexivity.
Qed.

Lemma diag_row_hom v r : diag_row NU (mvec v) r = mvec (diag_row NT v r).
Proof. unfold diag_row. rewrite mvec_onehot, mvec_length, nth_mvec. reflexivity. Qed.

Lemma flat_cat_hom d (c : list tid) :
  concat (map (fun k => flat (dget' (mdict d) k)) c)
  = mvec (concat (map (fun k => flat (dget' d k)) c)).
Proof.
  rewrite mvec_concat. unfold mmat. rewrite map_map. f_equal. apply map_ext. intros k.
  rewrite dget'_mdict, flat_mtens. reflexivity.
Qed.

Lemma diag_compute_hom c d : diag_compute NU (mprog P) c (mdict d) = mres (diag_compute NT P c d).
Proof.
  unfold diag_compute. destruct c as [|k0 c0]; [reflexivity|].
  cbv beta iota zeta. generalize (k0 :: c0). intros c.
  rewrite <- mk_dict_hom. f_equal. rewrite map_map. apply map_ext. intros [j k].
  cbn [fst snd]. f_equal. unfold mtens. cbn [t_batched t_trail t_rows mprog p_shape]. f_equal.
  rewrite flat_cat_hom, mvec_length. unfold mmat. rewrite !map_map. apply map_ext. intros r.
  rewrite diag_row_hom, split_by_mvec. apply nth_mmat.
Qed.

Lemma select_compute_hom keys d : select_compute (mprog P) keys (mdict d) = mres (select_compute P keys d).
Proof.
  unfold select_compute. rewrite <- mk_dict_hom. cbn [mdict dk]. f_equal.
  rewrite map_map. apply map_ext. intros k. cbn [fst snd]. rewrite dget'_mdict. reflexivity.
Qed.

Lemma stack_dicts_hom ds : stack_dicts NU (mprog P) (map mdict ds) = mres (stack_dicts NT P ds).
Proof.
  unfold stack_dicts. rewrite <- mk_dict_hom.
  rewrite tp_flat_map_map.
  rewrite (flat_map_ext (fun x => dkeys (mdict x)) dkeys dkeys_mdict).
  f_equal. rewrite map_map. apply map_ext. intros k. cbn [fst snd]. f_equal.
  unfold mtens. cbn [t_batched t_trail t_rows mprog p_shape]. f_equal.
  unfold mmat. rewrite !map_map. apply map_ext. intros d.
  rewrite dget_mdict. destruct (dget d k) as [v|]; cbn [option_map].
  - apply flat_mtens.
  - rewrite mvec_vzero. reflexivity.
Qed.

Lemma union_kind_hom : forall ds k0,
  fold_left (fun acc (d : @tdict U) => lca acc (dk d)) (map mdict ds) k0
  = fold_left (fun acc (d : @tdict T) => lca acc (dk d)) ds k0.
Proof. induction ds as [|d ds IH]; intros k0; [reflexivity|]. cbn [map fold_left]. apply IH. Qed.

Lemma union_items_hom : forall ds : list (@tdict T),
  flat_map (fun d : @tdict U => ditems d) (map mdict ds) = mitems (flat_map (fun d => ditems d) ds).
Proof.
  induction ds as [|d ds IH]; [reflexivity|]. cbn [map flat_map]. rewrite map_app, IH. reflexivity.
Qed.

Lemma union_dicts_hom ds : union_dicts (mprog P) (map mdict ds) = mres (union_dicts P ds).
Proof. unfold union_dicts. rewrite union_kind_hom, union_items_hom. apply mk_dict_hom. Qed.

Lemma matrixify_compute_hom d : matrixify_compute (mprog P) (mdict d) = mres (matrixify_compute P d).
Proof.
  unfold matrixify_compute. rewrite <- mk_dict_hom. f_equal. cbn [mdict ditems].
  rewrite !map_map. apply map_ext. intros kv. reflexivity.
Qed.

Lemma reshape_compute_hom d : reshape_compute (mprog P) (mdict d) = mres (reshape_compute P d).
Proof.
  unfold reshape_compute. rewrite <- mk_dict_hom. f_equal. cbn [mdict ditems].
  rewrite !map_map. apply map_ext. intros kv. reflexivity.
Qed.

Lemma unite_hom ord d : unite ord (mdict d) = mmat (unite ord d).
Proof.
  unfold unite. destruct ord as [|k0 ord0]; [reflexivity|]. generalize (k0 :: ord0). intros ord.
  rewrite dget'_mdict, nrows_mtens. unfold mmat at 1. rewrite map_map. apply map_ext. intros r.
  rewrite mvec_concat. unfold mmat. rewrite map_map. f_equal. apply map_ext. intros k.
  rewrite dget'_mdict. cbn [mtens t_rows]. apply nth_mmat.
Qed.

(* ---------- Accumulate ---------- *)
Lemma tadd_rows_hom : forall ra rb : list (list T),
  map (fun ab => vadd NU (fst ab) (snd ab)) (combine (mmat ra) (mmat rb))
  = mmat (map (fun ab => vadd NT (fst ab) (snd ab)) (combine ra rb)).
Proof.
  induction ra as [|a ra IH]; intros rb; [reflexivity|].
  destruct rb as [|b rb]; [reflexivity|].
  rewrite !mmat_cons. cbn [combine map fst snd]. rewrite mmat_cons, IH, mvec_vadd. reflexivity.
Qed.

Lemma tadd_hom a b : tadd NU (mtens a) (mtens b) = mtens (tadd NT a b).
Proof.
  unfold tadd, mtens. cbn [t_batched t_trail t_rows]. f_equal. apply tadd_rows_hom.
Qed.

Lemma accumulate_one_hom s kv :
  accumulate_one NU (mstore s) (fst kv, mtens (snd kv)) = mstore (accumulate_one NT s kv).
Proof.
  unfold accumulate_one. cbn [fst snd]. rewrite sget_mstore.
  destruct (sget s (fst kv)) as [g|]; cbn [option_map].
  - unfold sset, mstore. cbn [s_grads s_freed s_log s_next map fst snd]. f_equal. f_equal. f_equal.
    unfold mgval. cbn [g_sid g_val]. f_equal. apply tadd_hom.
  - reflexivity.
Qed.

Lemma accumulate_fold_hom : forall items s,
  fold_left (accumulate_one NU) (mitems items) (mstore s)
  = mstore (fold_left (accumulate_one NT) items s).
Proof.
  induction items as [|kv items IH]; intros s; [reflexivity|].
  cbn [map fold_left]. rewrite accumulate_one_hom. apply IH.
Qed.

Lemma expects_all_mprog ks : expects_all (mprog P) ks = expects_all P ks.
Proof. reflexivity. Qed.

Lemma accumulate_compute_hom s d :
  accumulate_compute NU (mprog P) (mstore s) (mdict d)
  = (mres (fst (accumulate_compute NT P s d)), mstore (snd (accumulate_compute NT P s d))).
Proof.
  unfold accumulate_compute. rewrite dkeys_mdict, expects_all_mprog.
  destruct (expects_all P (dkeys d)); cbn [fst snd]; [|reflexivity].
  cbn [mdict ditems]. rewrite accumulate_fold_hom. reflexivity.
Qed.

(* ---------- Grad ---------- *)
Lemma cots_flat_hom (outs : list tid) d :
  map (fun o => flat (dget' (mdict d) o)) outs = mmat (map (fun o => flat (dget' d o)) outs).
Proof.
  unfold mmat. rewrite map_map. apply map_ext. intros o. rewrite dget'_mdict. apply flat_mtens.
Qed.

Lemma cots_row_hom (outs : list tid) d r :
  map (fun o => nth r (t_rows (dget' (mdict d) o)) []) outs
  = mmat (map (fun o => nth r (t_rows (dget' d o)) []) outs).
Proof.
  unfold mmat at 1. rewrite map_map. apply map_ext. intros o. rewrite dget'_mdict.
  cbn [mtens t_rows]. apply nth_mmat.
Qed.

Lemma grad_compute_hom s outs ins retain d :
  grad_compute NU (mprog P) (mstore s) outs ins retain (mdict d)
  = (mres (fst (grad_compute NT P s outs ins retain d)),
     mstore (snd (grad_compute NT P s outs ins retain d))).
Proof.
  unfold grad_compute. destruct ins as [|i0 ins0].
  - cbn [fst snd]. f_equal. apply (mk_dict_hom (dk d) []).
  - generalize (i0 :: ins0). intros ins. destruct outs as [|o0 outs0].
    + cbn [fst snd]. f_equal. rewrite <- mk_dict_hom. cbn [mdict dk]. f_equal.
      rewrite map_map. apply map_ext. intros i. cbn [fst snd]. f_equal.
      unfold plain, mtens. cbn [t_batched t_trail t_rows mmat map]. rewrite mvec_vzero. reflexivity.
    + generalize (o0 :: outs0). intros outs. cbv zeta.
      rewrite ag_sweep_hom.
      destruct (ag_sweep P s outs ins 1 false retain) as [[u|e] s1]; cbn [fst snd]; [|reflexivity].
      f_equal. rewrite <- mk_dict_hom. cbn [mdict dk]. f_equal.
      rewrite map_map. apply map_ext. intros i. cbn [fst snd]. f_equal.
      unfold plain, mtens. cbn [t_batched t_trail t_rows mmat map]. f_equal. f_equal.
      rewrite cots_flat_hom. apply mat_ag_hom.
Qed.

(* ---------- Jac ---------- *)
Lemma jac_row_hom outs ins d r :
  jac_row NU (mprog P) outs ins (mdict d) r = mvec (jac_row NT P outs ins d r).
Proof.
  unfold jac_row. rewrite cots_row_hom, mvec_concat. unfold mmat at 2. rewrite map_map.
  f_equal. apply map_ext. intros i. apply mat_ag_hom.
Qed.

Lemma jac_chunks_hom outs ins d : forall plan s,
  jac_chunks NU (mprog P) (mstore s) outs ins (mdict d) plan
  = (rmap mmat (fst (jac_chunks NT P s outs ins d plan)),
     mstore (snd (jac_chunks NT P s outs ins d plan))).
Proof.
  induction plan as [|c plan IH]; intros s; cbn [jac_chunks]; [reflexivity|].
  rewrite ag_sweep_hom.
  destruct (ag_sweep P s outs ins (c_len c) (c_batched c) (c_retain c)) as [[u|e] s1];
    cbn [fst snd]; [|reflexivity].
  rewrite IH.
  destruct (jac_chunks NT P s1 outs ins d plan) as [[rest|e] s2]; cbn [fst snd rmap]; [|reflexivity].
  f_equal. f_equal. unfold mmat. rewrite map_app, map_map. f_equal.
  apply map_ext. intros r. apply jac_row_hom.
Qed.

Lemma jac_compute_hom s outs ins chunk retain d :
  jac_compute NU (mprog P) (mstore s) outs ins chunk retain (mdict d)
  = (mres (fst (jac_compute NT P s outs ins chunk retain d)),
     mstore (snd (jac_compute NT P s outs ins chunk retain d))).
Proof.
  unfold jac_compute. destruct ins as [|i0 ins0].
  - cbn [fst snd]. f_equal. apply (mk_dict_hom (dk d) []).
  - generalize (i0 :: ins0). intros ins. destruct outs as [|o0 outs0].
    + cbn [fst snd]. f_equal. rewrite <- mk_dict_hom. cbn [mdict dk]. f_equal.
      rewrite map_map. apply map_ext. intros i. reflexivity.
    + cbv zeta. rewrite dget'_mdict, nrows_mtens. generalize (o0 :: outs0). intros outs.
      destruct (Nat.eqb (max_chunk (nrows (dget' d o0)) chunk) 0); [reflexivity|].
      rewrite jac_chunks_hom.
      destruct (jac_chunks NT P s outs ins d (chunk_plan (nrows (dget' d o0)) chunk retain))
        as [[matrix|e] s1]; cbn [fst snd rmap]; [|reflexivity].
      f_equal. rewrite <- mk_dict_hom. cbn [mdict dk]. f_equal.
      rewrite map_map. apply map_ext. intros [j i]. cbn [fst snd]. f_equal.
      unfold mtens. cbn [t_batched t_trail t_rows mprog p_shape]. f_equal.
      unfold mmat. rewrite !map_map. apply map_ext. intros row.
      rewrite split_by_mvec. apply nth_mmat.
Qed.

(* ---------- _AggregateMatrices ---------- *)
Variable A : list (list T) -> res (list T).
Variable A' : list (list U) -> res (list U).
Hypothesis HA : agg_hom A A'.

Lemma aggmat_compute_hom ord d :
  aggmat_compute (mprog P) A' ord (mdict d) = mres (aggmat_compute P A ord d).
Proof.
  unfold aggmat_compute. destruct ord as [|k0 ord0]; [reflexivity|].
  generalize (k0 :: ord0). intros ord. cbv zeta.
  rewrite unite_hom, HA. destruct (A (unite ord d)) as [v|e]; [|reflexivity].
  rewrite mvec_length.
  assert (El : map (fun k => hd 0 (t_trail (dget' (mdict d) k))) ord
               = map (fun k => hd 0 (t_trail (dget' d k))) ord).
  { apply map_ext. intros k. rewrite dget'_mdict. reflexivity. }
  rewrite El. destruct (negb _); [reflexivity|].
  rewrite <- mk_dict_hom. f_equal. rewrite split_by_mvec. unfold mmat.
  rewrite tp_combine_map_r, !map_map. apply map_ext. intros [k p]. cbn [fst snd].
  unfold mtens. cbn [t_batched t_trail t_rows mmat map]. rewrite mvec_length. reflexivity.
Qed.

(* ---------- run ---------- *)
Definition run_hom_at (t : tr) : Prop := forall s d,
  run NU (mprog P) A' t (mstore s) (mdict d)
  = (mres (fst (run NT P A t s d)), mstore (snd (run NT P A t s d))).

Lemma run_list_hom d ts : Forall run_hom_at ts -> forall s,
  run_list NU (mprog P) A' (mdict d) ts (mstore s)
  = (rmap (map mdict) (fst (run_list NT P A d ts s)), mstore (snd (run_list NT P A d ts s))).
Proof.
  intros HF. induction HF as [|t ts Ht HF IH]; intros s; [reflexivity|].
  rewrite !run_list_cons. rewrite (Ht s d).
  destruct (run NT P A t s d) as [[d1|e] s1]; cbn [fst snd mres]; [|reflexivity].
  rewrite IH.
  destruct (run_list NT P A d ts s1) as [[ds|e] s2]; cbn [fst snd rmap map]; reflexivity.
Qed.

Lemma run_hom_aux : forall t, run_hom_at t.
Proof.
  intros t.
  induction t as [vals|c|keys req|ts IH|ts IH|o i IHo IHi|keys|outs ins retain|outs ins chunk retain
                 |keys|ord|keys] using tr_ind'; intros s d.
  - cbn [run]. rewrite dkeys_mdict. destruct (negb _); [reflexivity|].
    unfold lift. cbn [fst snd]. rewrite init_compute_hom. reflexivity.
  - cbn [run]. rewrite dkeys_mdict. destruct (negb _); [reflexivity|].
    unfold lift. cbn [fst snd]. rewrite diag_compute_hom. reflexivity.
  - cbn [run]. rewrite dkeys_mdict. destruct (negb _); [reflexivity|].
    unfold lift. cbn [fst snd]. rewrite select_compute_hom. reflexivity.
  - rewrite !run_stack_eq. rewrite dkeys_mdict. destruct (negb _); [reflexivity|].
    rewrite (run_list_hom d ts IH s).
    destruct (run_list NT P A d ts s) as [[ds|e] s1]; cbn [fst snd rmap]; [|reflexivity].
    rewrite stack_dicts_hom. reflexivity.
  - rewrite !run_conj_eq. rewrite dkeys_mdict. destruct (negb _); [reflexivity|].
    rewrite (run_list_hom d ts IH s).
    destruct (run_list NT P A d ts s) as [[ds|e] s1]; cbn [fst snd rmap]; [|reflexivity].
    rewrite union_dicts_hom. reflexivity.
  - cbn [run]. rewrite dkeys_mdict. destruct (negb _); [reflexivity|].
    rewrite (IHi s d).
    destruct (run NT P A i s d) as [[d1|e] s1]; cbn [fst snd mres]; [|reflexivity].
    apply IHo.
  - cbn [run]. rewrite dkeys_mdict. destruct (negb _); [reflexivity|].
    apply accumulate_compute_hom.
  - cbn [run]. rewrite dkeys_mdict. destruct (negb _); [reflexivity|].
    apply grad_compute_hom.
  - cbn [run]. rewrite dkeys_mdict. destruct (negb _); [reflexivity|].
    apply jac_compute_hom.
  - cbn [run]. rewrite dkeys_mdict. destruct (negb _); [reflexivity|].
    unfold lift. cbn [fst snd]. rewrite matrixify_compute_hom. reflexivity.
  - cbn [run]. rewrite dkeys_mdict. destruct (negb _); [reflexivity|].
    unfold lift. cbn [fst snd]. rewrite aggmat_compute_hom. reflexivity.
  - cbn [run]. rewrite dkeys_mdict. destruct (negb _); [reflexivity|].
    unfold lift. cbn [fst snd]. rewrite reshape_compute_hom. reflexivity.
Qed.

Lemma mdict_empty : mdict empty_dict = empty_dict.
Proof. reflexivity. Qed.

Lemma build_and_run_hom t s d :
  build_and_run NU (mprog P) A' t (mstore s) (mdict d)
  = (mres (fst (build_and_run NT P A t s d)), mstore (snd (build_and_run NT P A t s d))).
Proof. unfold build_and_run. destruct (wf t); [apply run_hom_aux | reflexivity]. Qed.

Lemma backward_hom_aux tensors ord k retain s :
  backward_model NU (mprog P) A' tensors ord k retain (mstore s)
  = (mres (fst (backward_model NT P A tensors ord k retain s)),
     mstore (snd (backward_model NT P A tensors ord k retain s))).
Proof.
  unfold backward_model. destruct (negb (valid_chunk k)); [reflexivity|].
  destruct tensors as [|t0 tensors]; [reflexivity|].
  rewrite <- mdict_empty. apply build_and_run_hom.
Qed.

Lemma mtl_hom_aux losses features tasks shared k retain s :
  mtl_backward_model NU (mprog P) A' losses features tasks shared k retain (mstore s)
  = (mres (fst (mtl_backward_model NT P A losses features tasks shared k retain s)),
     mstore (snd (mtl_backward_model NT P A losses features tasks shared k retain s))).
Proof.
  unfold mtl_backward_model. destruct (negb (valid_chunk k)); [reflexivity|].
  destruct features as [|f0 features]; [reflexivity|].
  destruct (negb match inter (concat tasks) shared with [] => true | _ :: _ => false end);
    [reflexivity|].
  cbn [mprog p_shape].
  destruct (negb (forallb _ losses)); [reflexivity|].
  destruct losses as [|l0 losses]; [reflexivity|].
  destruct (negb (Nat.eqb _ _)); [reflexivity|].
  rewrite expects_all_mprog.
  destruct (negb (expects_all P _)); [reflexivity|].
  rewrite <- mdict_empty. apply build_and_run_hom.
Qed.

End WithProg.

Theorem run_hom : forall P A A', agg_hom A A' -> forall t s d,
  run NU (mprog P) A' t (mstore s) (mdict d)
  = (mres (fst (run NT P A t s d)), mstore (snd (run NT P A t s d))).
Proof. intros P A A' HA t s d. exact (run_hom_aux P A A' HA t s d). Qed.

Theorem backward_hom : forall P A A', agg_hom A A' -> forall tensors ord k retain s,
  backward_model NU (mprog P) A' tensors ord k retain (mstore s)
  = (mres (fst (backward_model NT P A tensors ord k retain s)),
     mstore (snd (backward_model NT P A tensors ord k retain s))).
Proof. intros P A A' HA tensors ord k retain s. exact (backward_hom_aux P A A' HA tensors ord k retain s). Qed.

Theorem mtl_hom : forall P A A', agg_hom A A' -> forall losses features tasks shared k retain s,
  mtl_backward_model NU (mprog P) A' losses features tasks shared k retain (mstore s)
  = (mres (fst (mtl_backward_model NT P A losses features tasks shared k retain s)),
     mstore (snd (mtl_backward_model NT P A losses features tasks shared k retain s))).
Proof.
  intros P A A' HA losses features tasks shared k retain s.
  exact (mtl_hom_aux P A A' HA losses features tasks shared k retain s).
Qed.

(* ---------- aggregators built from ring operations only ---------- *)
Lemma agg_constant_hom w : agg_hom (agg_constant NT w) (agg_constant NU (mvec w)).
Proof.
  intros J. unfold agg_constant, weighted, constant_weights. rewrite mvec_length, mmat_length.
  destruct (Nat.eqb (length w) (length J)); cbn [rbind]; [|reflexivity].
  rewrite combine_rows_hom. reflexivity.
Qed.

Lemma agg_sum_hom : agg_hom (fun J => Ok (agg_sum NT J)) (fun J => Ok (agg_sum NU J)).
Proof.
  intros J. unfold agg_sum. rewrite combine_rows_hom, mmat_length. f_equal. f_equal.
  unfold sum_weights. symmetry. exact (mvec_vones (length J)).
Qed.

End Hom.

(* ---------- PART 2: the instance Q -> R ---------- *)
Lemma Q2R_Qred q : Q2R (Qred q) = Q2R q.
Proof. apply Qeq_eqR. apply Qred_correct. Qed.

Lemma Q2R_QN_0 : Q2R (n0 QN) = n0 RN.
Proof. cbn [n0 QN RN]. unfold Q2R. cbn [Qnum Qden]. apply Rmult_0_l. Qed.

Lemma Q2R_QN_1 : Q2R (n1 QN) = n1 RN.
Proof. cbn [n1 QN RN]. unfold Q2R. cbn [Qnum Qden]. rewrite Rinv_1. apply Rmult_1_r. Qed.

Lemma Q2R_QN_add : forall a b, Q2R (nadd QN a b) = nadd RN (Q2R a) (Q2R b).
Proof. intros a b. cbn [nadd QN RN]. rewrite Q2R_Qred. apply Q2R_plus. Qed.

Lemma Q2R_QN_mul : forall a b, Q2R (nmul QN a b) = nmul RN (Q2R a) (Q2R b).
Proof. intros a b. cbn [nmul QN RN]. rewrite Q2R_Qred. apply Q2R_mult. Qed.

Theorem run_Q_to_R : forall (P : prog Q) A A', agg_hom Q2R A A' -> forall t s d,
  run RN (mprog Q2R P) A' t (mstore Q2R s) (mdict Q2R d)
  = (mres Q2R (fst (run QN P A t s d)), mstore Q2R (snd (run QN P A t s d))).
Proof. exact (run_hom QN RN Q2R Q2R_QN_0 Q2R_QN_1 Q2R_QN_add Q2R_QN_mul). Qed.

Theorem backward_Q_to_R : forall (P : prog Q) A A', agg_hom Q2R A A' -> forall tensors ord k retain s,
  backward_model RN (mprog Q2R P) A' tensors ord k retain (mstore Q2R s)
  = (mres Q2R (fst (backward_model QN P A tensors ord k retain s)),
     mstore Q2R (snd (backward_model QN P A tensors ord k retain s))).
Proof. exact (backward_hom QN RN Q2R Q2R_QN_0 Q2R_QN_1 Q2R_QN_add Q2R_QN_mul). Qed.

Theorem mtl_Q_to_R : forall (P : prog Q) A A', agg_hom Q2R A A' ->
  forall losses features tasks shared k retain s,
  mtl_backward_model RN (mprog Q2R P) A' losses features tasks shared k retain (mstore Q2R s)
  = (mres Q2R (fst (mtl_backward_model QN P A losses features tasks shared k retain s)),
     mstore Q2R (snd (mtl_backward_model QN P A losses features tasks shared k retain s))).
Proof. exact (mtl_hom QN RN Q2R Q2R_QN_0 Q2R_QN_1 Q2R_QN_add Q2R_QN_mul). Qed.

(* the aggregators used by the correspondence *)
Theorem agg_constant_Q_to_R : forall w : list Q,
  agg_hom Q2R (agg_constant QN w) (agg_constant RN (map Q2R w)).
Proof.
  intros w. apply (agg_constant_hom QN RN Q2R);
    first [exact Q2R_QN_0 | exact Q2R_QN_1 | exact Q2R_QN_add | exact Q2R_QN_mul].
Qed.

Theorem agg_sum_Q_to_R :
  agg_hom Q2R (fun J => Ok (agg_sum QN J)) (fun J => Ok (agg_sum RN J)).
Proof.
  apply (agg_sum_hom QN RN Q2R);
    first [exact Q2R_QN_0 | exact Q2R_QN_1 | exact Q2R_QN_add | exact Q2R_QN_mul].
Qed.

Lemma Q2R_inject_nat n : Q2R (inject_Z (Z.of_nat n)) = INR n.
Proof.
  unfold Q2R, inject_Z. cbn [Qnum Qden]. rewrite INR_IZR_INZ. unfold Rdiv.
  rewrite Rinv_1. apply Rmult_1_r.
Qed.

Lemma Q2R_mean_weight n : n <> 0 ->
  Q2R (ndiv QN (n1 QN) (nofnat QN n)) = ndiv RN (n1 RN) (nofnat RN n).
Proof.
  intros Hn. cbn [ndiv n1 nofnat QN RN]. rewrite Q2R_Qred, Q2R_div.
  - rewrite Q2R_inject_nat. f_equal. exact Q2R_QN_1.
  - unfold Qeq, inject_Z. cbn [Qnum Qden]. lia.
Qed.

Theorem agg_mean_Q_to_R :
  agg_hom Q2R (fun J => Ok (agg_mean QN J)) (fun J => Ok (agg_mean RN J)).
Proof.
  intros J. unfold agg_mean. f_equal.
  rewrite (combine_rows_hom QN RN Q2R Q2R_QN_0 Q2R_QN_add Q2R_QN_mul).
  f_equal. unfold mmat. rewrite map_length. unfold mean_weights, mvec.
  destruct J as [|r J]; [reflexivity|].
  rewrite tp_map_repeat. f_equal. symmetry. apply Q2R_mean_weight. cbn [length]. discriminate.
Qed.

Print Assumptions run_hom.
Print Assumptions backward_hom.
Print Assumptions mtl_hom.
Print Assumptions agg_constant_hom.
Print Assumptions agg_sum_hom.
Print Assumptions backward_Q_to_R.
Print Assumptions mtl_Q_to_R.
Print Assumptions run_Q_to_R.
Print Assumptions agg_constant_Q_to_R.
Print Assumptions agg_sum_Q_to_R.
Print Assumptions agg_mean_Q_to_R.
