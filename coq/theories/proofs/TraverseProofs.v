From Coq Require Import List Bool Arith Lia.
From TJ Require Import Num Chunk Autojac Traverse.
Import ListNotations.

(* ---------- generic helpers (independent of the graph) ---------- *)

Lemma mem_In : forall x l, mem x l = true <-> In x l.
Proof.
  intros x l. unfold mem. rewrite existsb_exists. split.
  - intros [y [Hy Hxy]]. apply Nat.eqb_eq in Hxy. subst y. exact Hy.
  - intros H. exists x. split; [exact H | apply Nat.eqb_refl].
Qed.

Lemma mem_false : forall x l, mem x l = false <-> ~ In x l.
Proof.
  intros x l. rewrite <- mem_In. destruct (mem x l); split; intro H; congruence.
Qed.

Lemma dedup_In : forall x l, In x (dedup l) <-> In x l.
Proof. intros x l. unfold dedup. apply nodup_In. Qed.

Lemma enqueue_queue : forall cs q ex x,
  In x (fst (enqueue cs q ex)) <-> In x q \/ (In (Some x) cs /\ ~ In x ex).
Proof.
  induction cs as [|[c|] cs IH]; intros q ex x; simpl.
  - split.
    + intro H. left. exact H.
    + intros [H|[[] _]]. exact H.
  - destruct (mem c ex) eqn:Hm.
    + rewrite IH. apply mem_In in Hm. split.
      * intros [H|[H1 H2]].
        -- left. exact H.
        -- right. split; [right; exact H1 | exact H2].
      * intros [H|[[H1|H1] H2]].
        -- left. exact H.
        -- injection H1 as H1. subst x. contradiction.
        -- right. split; assumption.
    + rewrite IH. apply mem_false in Hm. rewrite in_app_iff. simpl. split.
      * intros [[H|[H|[]]]|[H1 H2]].
        -- left. exact H.
        -- subst x. right. split; [left; reflexivity | exact Hm].
        -- right. split; [right; exact H1 | intro H3; apply H2; right; exact H3].
      * intros [H|[[H1|H1] H2]].
        -- left. left. exact H.
        -- injection H1 as H1. left. right. left. exact H1.
        -- destruct (Nat.eq_dec c x) as [He|He].
           ++ left. right. left. exact He.
           ++ right. split; [exact H1 | intros [H3|H3]; [exact (He H3) | exact (H2 H3)]].
  - rewrite IH. split.
    + intros [H|[H1 H2]].
      * left. exact H.
      * right. split; [right; exact H1 | exact H2].
    + intros [H|[[H1|H1] H2]].
      * left. exact H.
      * discriminate H1.
      * right. split; assumption.
Qed.

Lemma enqueue_excl : forall cs q ex x,
  In x (snd (enqueue cs q ex)) <-> In x ex \/ In (Some x) cs.
Proof.
  induction cs as [|[c|] cs IH]; intros q ex x; simpl.
  - split.
    + intro H. left. exact H.
    + intros [H|[]]. exact H.
  - destruct (mem c ex) eqn:Hm.
    + rewrite IH. apply mem_In in Hm. split.
      * intros [H|H]; [left; exact H | right; right; exact H].
      * intros [H|[H|H]].
        -- left. exact H.
        -- injection H as H. subst x. left. exact Hm.
        -- right. exact H.
    + rewrite IH. simpl. split.
      * intros [[H|H]|H].
        -- subst x. right. left. reflexivity.
        -- left. exact H.
        -- right. right. exact H.
      * intros [H|[H|H]].
        -- left. right. exact H.
        -- injection H as H. left. left. exact H.
        -- right. exact H.
  - rewrite IH. split.
    + intros [H|H]; [left; exact H | right; right; exact H].
    + intros [H|[H|H]].
      * left. exact H.
      * discriminate H.
      * right. exact H.
Qed.

(* number of nodes of [nodes] not yet in the excluded set *)
Definition cnt (ex nodes : list nid) : nat :=
  length (filter (fun x => negb (mem x ex)) nodes).

Lemma filter_length_le' : forall (f : nat -> bool) l, length (filter f l) <= length l.
Proof.
  intros f l. induction l as [|a l IH]; simpl.
  - lia.
  - destruct (f a); simpl; lia.
Qed.

Lemma dedup_length_le : forall l, length (dedup l) <= length l.
Proof.
  intros l. unfold dedup. induction l as [|a l IH]; simpl.
  - lia.
  - destruct (in_dec Nat.eq_dec a l); simpl; lia.
Qed.

Lemma cnt_cons_notin : forall c ex nodes,
  ~ In c nodes -> cnt (c :: ex) nodes = cnt ex nodes.
Proof.
  intros c ex nodes. unfold cnt. induction nodes as [|a nodes IH]; intros Hc; simpl.
  - reflexivity.
  - assert (Hac : Nat.eqb a c = false).
    { apply Nat.eqb_neq. intro He. apply Hc. left. exact He. }
    rewrite Hac. simpl.
    assert (Hc' : ~ In c nodes). { intro H. apply Hc. right. exact H. }
    specialize (IH Hc'). simpl in IH.
    destruct (mem a ex); simpl; rewrite IH; reflexivity.
Qed.

Lemma cnt_cons_in : forall c ex nodes,
  NoDup nodes -> In c nodes -> ~ In c ex -> S (cnt (c :: ex) nodes) = cnt ex nodes.
Proof.
  intros c ex nodes Hnd. induction Hnd as [|a nodes Ha Hnd IH]; intros Hc Hex.
  - destruct Hc.
  - destruct (Nat.eq_dec a c) as [He|He].
    + subst a. pose proof (cnt_cons_notin c ex nodes Ha) as Hn.
      unfold cnt in *. simpl. rewrite Nat.eqb_refl. simpl.
      apply mem_false in Hex. rewrite Hex. simpl. simpl in Hn. rewrite Hn. reflexivity.
    + destruct Hc as [Hc|Hc]; [contradiction|].
      specialize (IH Hc Hex). unfold cnt in *. simpl.
      apply Nat.eqb_neq in He. rewrite He. simpl. simpl in IH.
      destruct (mem a ex); simpl; rewrite <- IH; reflexivity.
Qed.

Lemma enqueue_measure : forall nodes, NoDup nodes ->
  forall cs q ex,
  (forall c, In (Some c) cs -> In c nodes) ->
  length (fst (enqueue cs q ex)) + cnt (snd (enqueue cs q ex)) nodes
  = length q + cnt ex nodes.
Proof.
  intros nodes Hnd. induction cs as [|[c|] cs IH]; intros q ex Hcs; simpl.
  - reflexivity.
  - assert (Hcs' : forall c0, In (Some c0) cs -> In c0 nodes).
    { intros c0 H0. apply Hcs. right. exact H0. }
    destruct (mem c ex) eqn:Hm.
    + apply IH. exact Hcs'.
    + rewrite IH by exact Hcs'. rewrite app_length. simpl.
      apply mem_false in Hm.
      assert (Hc : In c nodes). { apply Hcs. left. reflexivity. }
      pose proof (cnt_cons_in c ex nodes Hnd Hc Hm) as Hk. lia.
  - apply IH. intros c0 H0. apply Hcs. right. exact H0.
Qed.

Section TraverseProofs.
Variable next : nid -> list (option nid).
Variable acc : nid -> option tid.

(* a path n -> ... -> m along next_functions all of whose nodes (both ends included) avoid excl *)
Inductive apath (excl : list nid) : nid -> nid -> Prop :=
| ap_refl : forall n, ~ In n excl -> apath excl n n
| ap_step : forall n c m, ~ In n excl -> In (Some c) (next n) -> apath excl c m -> apath excl n m.

Lemma apath_snoc : forall E r n c,
  apath E r n -> In (Some c) (next n) -> ~ In c E -> apath E r c.
Proof.
  intros E r n c Hp. induction Hp as [n Hn | n d m Hn Hd Hp IH]; intros Hc Hex.
  - eapply ap_step; [exact Hn | exact Hc | apply ap_refl; exact Hex].
  - eapply ap_step; [exact Hn | exact Hd | apply IH; assumption].
Qed.

Lemma apath_start : forall E n m, apath E n m -> ~ In n E.
Proof. intros E n m Hp. inversion Hp; assumption. Qed.

(* invariant of the loop w.r.t. the original excluded set E0 and the set V of popped nodes *)
Definition Inv (roots E0 V queue ex result : list nid) : Prop :=
  (forall x, In x queue \/ In x V -> exists r, In r roots /\ apath E0 r x) /\
  (forall x, In x E0 -> In x ex) /\
  (forall x, In x ex -> In x E0 \/ In x V \/ In x queue) /\
  (forall v c, In v V -> In (Some c) (next v) -> In c ex) /\
  (forall a, In a result <-> acc a <> None /\ In a V) /\
  NoDup result /\
  (forall r, In r roots -> ~ In r E0 -> In r V \/ In r queue).

Lemma Inv_init : forall roots E0,
  Inv roots E0 [] (start_queue roots E0) (dedup E0) [].
Proof.
  intros roots E0. unfold Inv, start_queue.
  split; [|split; [|split; [|split; [|split; [|split]]]]].
  - intros x [Hx|[]]. apply filter_In in Hx. destruct Hx as [Hx1 Hx2].
    apply (proj1 (dedup_In _ _)) in Hx1. apply negb_true_iff in Hx2. apply mem_false in Hx2.
    exists x. split; [exact Hx1 | apply ap_refl; exact Hx2].
  - intros x Hx. apply dedup_In. exact Hx.
  - intros x Hx. left. apply (proj1 (dedup_In _ _)) in Hx. exact Hx.
  - intros v c [].
  - intros a. split.
    + intros [].
    + intros [_ []].
  - constructor.
  - intros r Hr Hex. right. apply filter_In. split.
    + apply dedup_In. exact Hr.
    + apply negb_true_iff. apply mem_false. exact Hex.
Qed.

Lemma Inv_step : forall roots E0 V n q ex result,
  Inv roots E0 V (n :: q) ex result ->
  Inv roots E0 (n :: V)
      (fst (enqueue (next n) q ex)) (snd (enqueue (next n) q ex))
      (match acc n with
       | Some _ => if mem n result then result else n :: result
       | None => result
       end).
Proof.
  intros roots E0 V n q ex result (H1 & H2 & H3 & H4 & H5 & H6 & H7).
  unfold Inv. split; [|split; [|split; [|split; [|split; [|split]]]]].
  - intros x [Hx|[Hx|Hx]].
    + apply enqueue_queue in Hx. destruct Hx as [Hx|[Hc Hex]].
      * apply H1. left. right. exact Hx.
      * destruct (H1 n (or_introl (or_introl eq_refl))) as [r [Hr Hp]].
        exists r. split; [exact Hr|].
        eapply apath_snoc; [exact Hp | exact Hc |].
        intro HE. apply Hex. apply H2. exact HE.
    + subst x. apply H1. left. left. reflexivity.
    + apply H1. right. exact Hx.
  - intros x Hx. apply enqueue_excl. left. apply H2. exact Hx.
  - intros x Hx. apply enqueue_excl in Hx.
    assert (Hold : In x ex -> In x E0 \/ In x (n :: V) \/ In x (fst (enqueue (next n) q ex))).
    { intro Hx'. destruct (H3 x Hx') as [H|[H|[H|H]]].
      - left. exact H.
      - right. left. right. exact H.
      - right. left. left. exact H.
      - right. right. apply enqueue_queue. left. exact H. }
    destruct Hx as [Hx|Hx].
    + apply Hold. exact Hx.
    + destruct (in_dec Nat.eq_dec x ex) as [Hi|Hi].
      * apply Hold. exact Hi.
      * right. right. apply enqueue_queue. right. split; assumption.
  - intros v c [Hv|Hv] Hc.
    + subst v. apply enqueue_excl. right. exact Hc.
    + apply enqueue_excl. left. eapply H4; eassumption.
  - intros a. destruct (acc n) as [t|] eqn:Hacc.
    + destruct (mem n result) eqn:Hm.
      * apply mem_In in Hm. rewrite H5. split.
        -- intros [Ha Hv]. split; [exact Ha | right; exact Hv].
        -- intros [Ha [Hv|Hv]].
           ++ subst a. apply H5. exact Hm.
           ++ split; assumption.
      * simpl. rewrite H5. split.
        -- intros [Ha|[Ha Hv]].
           ++ subst a. split; [congruence | left; reflexivity].
           ++ split; [exact Ha | right; exact Hv].
        -- intros [Ha [Hv|Hv]].
           ++ left. exact Hv.
           ++ right. split; assumption.
    + rewrite H5. split.
      * intros [Ha Hv]. split; [exact Ha | right; exact Hv].
      * intros [Ha [Hv|Hv]].
        -- subst a. congruence.
        -- split; assumption.
  - destruct (acc n) as [t|]; [|exact H6].
    destruct (mem n result) eqn:Hm; [exact H6|].
    apply mem_false in Hm. constructor; assumption.
  - intros r Hr Hex. destruct (H7 r Hr Hex) as [H|[H|H]].
    + left. right. exact H.
    + left. left. exact H.
    + right. apply enqueue_queue. left. exact H.
Qed.

Lemma Inv_final : forall roots E0 V ex res,
  Inv roots E0 V [] ex res ->
  (forall a, In a res <-> (acc a <> None /\ exists r, In r roots /\ apath E0 r a)) /\ NoDup res.
Proof.
  intros roots E0 V ex res (H1 & H2 & H3 & H4 & H5 & H6 & H7).
  split; [|exact H6].
  assert (Hclosed : forall n m, apath E0 n m -> In n V -> In m V).
  { intros n m Hp. induction Hp as [n Hn | n c m Hn Hc Hp IH]; intros Hv.
    - exact Hv.
    - apply IH. pose proof (H4 n c Hv Hc) as Hcex.
      destruct (H3 c Hcex) as [H|[H|[]]].
      + exfalso. exact (apath_start E0 c m Hp H).
      + exact H. }
  intros a. rewrite H5. split.
  - intros [Ha Hv]. split; [exact Ha|]. apply H1. right. exact Hv.
  - intros [Ha [r [Hr Hp]]]. split; [exact Ha|].
    apply (Hclosed r a Hp).
    destruct (H7 r Hr (apath_start E0 r a Hp)) as [H|[]]. exact H.
Qed.

Lemma bfs_inv : forall roots E0 fuel V queue ex result res,
  Inv roots E0 V queue ex result ->
  bfs next acc fuel queue ex result = Some res ->
  (forall a, In a res <-> (acc a <> None /\ exists r, In r roots /\ apath E0 r a)) /\ NoDup res.
Proof.
  intros roots E0. induction fuel as [|f IH]; intros V queue ex result res HI Hb.
  - simpl in Hb. discriminate Hb.
  - simpl in Hb. destruct queue as [|n q].
    + injection Hb as Hb. subst res. eapply Inv_final. exact HI.
    + eapply IH; [|exact Hb]. apply Inv_step. exact HI.
Qed.

(* soundness and completeness of the walk: whenever it terminates (does not run out of fuel),
   the result is exactly the set of AccumulateGrad nodes reachable from a non-excluded root
   along paths that avoid the excluded nodes.  Holds for every finite or infinite graph, cyclic
   or not. *)
Lemma bfs_sound_complete : forall fuel roots excl res,
  descendant_accumulate_grads next acc fuel roots excl = Some res ->
  forall a, In a res <-> (acc a <> None /\ exists r, In r roots /\ apath excl r a).
Proof.
  intros fuel roots excl res H. unfold descendant_accumulate_grads in H.
  exact (proj1 (bfs_inv roots excl fuel [] _ _ _ res (Inv_init roots excl) H)).
Qed.

Lemma bfs_result_nodup : forall fuel roots excl res,
  descendant_accumulate_grads next acc fuel roots excl = Some res -> NoDup res.
Proof.
  intros fuel roots excl res H. unfold descendant_accumulate_grads in H.
  exact (proj2 (bfs_inv roots excl fuel [] _ _ _ res (Inv_init roots excl) H)).
Qed.

Lemma bfs_fuel_gen : forall nodes,
  NoDup nodes ->
  (forall n c, In n nodes -> In (Some c) (next n) -> In c nodes) ->
  forall fuel queue ex result,
  (forall x, In x queue -> In x nodes) ->
  length queue + cnt ex nodes < fuel ->
  bfs next acc fuel queue ex result <> None.
Proof.
  intros nodes Hnd Hcl. induction fuel as [|f IH]; intros queue ex result Hq Hlt.
  - lia.
  - simpl. destruct queue as [|n q].
    + discriminate.
    + assert (Hn : In n nodes). { apply Hq. left. reflexivity. }
      assert (Hcs : forall c, In (Some c) (next n) -> In c nodes).
      { intros c Hc. eapply Hcl; eassumption. }
      apply IH.
      * intros x Hx. apply enqueue_queue in Hx. destruct Hx as [Hx|[Hx _]].
        -- apply Hq. right. exact Hx.
        -- apply Hcs. exact Hx.
      * rewrite (enqueue_measure nodes Hnd (next n) q ex Hcs). simpl in Hlt. lia.
Qed.

(* the out-of-fuel branch is unreachable for a finite graph: if all nodes that can ever be
   enqueued lie in a duplicate-free list [nodes], fuel > |nodes| + |roots| suffices *)
Lemma bfs_fuel_suffices : forall nodes fuel roots excl,
  NoDup nodes ->
  (forall r, In r roots -> In r nodes) ->
  (forall n c, In n nodes -> In (Some c) (next n) -> In c nodes) ->
  length nodes + length roots < fuel ->
  descendant_accumulate_grads next acc fuel roots excl <> None.
Proof.
  intros nodes fuel roots excl Hnd Hr Hcl Hlt. unfold descendant_accumulate_grads.
  apply (bfs_fuel_gen nodes Hnd Hcl).
  - intros x Hx. unfold start_queue in Hx. apply filter_In in Hx. destruct Hx as [Hx _].
    apply (proj1 (dedup_In _ _)) in Hx. apply Hr. exact Hx.
  - assert (H1 : length (start_queue roots excl) <= length roots).
    { unfold start_queue.
      eapply Nat.le_trans; [apply filter_length_le' | apply dedup_length_le]. }
    assert (H2 : cnt (dedup excl) nodes <= length nodes).
    { unfold cnt. apply filter_length_le'. }
    lia.
Qed.
End TraverseProofs.

Print Assumptions bfs_sound_complete.
Print Assumptions bfs_result_nodup.
Print Assumptions bfs_fuel_suffices.
