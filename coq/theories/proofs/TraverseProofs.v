From Coq Require Import List Bool Arith Lia.
From TJ Require Import Num Chunk Autojac Traverse.
Import ListNotations.

(* ---------- generic helpers (independent of the graph) ---------- *)

Lemma mem_In : forall x l, mem x l = true <-> In x l.
Proof.
  intros x l. unfold mem. rewrite existsb_exists. split.
  - intros [y [Hy Hxy]]. apply Nat.eqb_eq in Hxy. subst y. exact Hy.
  - intros H. exists x. split; [exact H | apply Nat.eqb_refl].
Qed.

Lemma mem_false : forall x l, mem x l = false <-> ~ In x l.
Proof.
  intros x l. rewrite <- mem_In. destruct (mem x l); split; intro H; congruence.
Qed.

Lemma emem_In : forall e l, emem e l = true <-> In e l.
Proof.
  intros [a b] l. unfold emem. rewrite existsb_exists. split.
  - intros [[c d] [Hy Hxy]]. cbn [fst snd] in Hxy. apply andb_true_iff in Hxy.
    destruct Hxy as [H1 H2]. apply Nat.eqb_eq in H1. apply Nat.eqb_eq in H2.
    subst c d. exact Hy.
  - intros H. exists (a, b). split; [exact H|]. cbn [fst snd].
    rewrite !Nat.eqb_refl. reflexivity.
Qed.

Lemma emem_false : forall e l, emem e l = false <-> ~ In e l.
Proof.
  intros e l. rewrite <- emem_In. destruct (emem e l); split; intro H; congruence.
Qed.

Lemma dedup_In : forall x l, In x (dedup l) <-> In x l.
Proof. intros x l. unfold dedup. apply nodup_In. Qed.

(* the nodes added to [visited] by one enqueue pass: the children reached by a non-excluded edge *)
Lemma enqueue_visited : forall cs ex q vis x,
  In x (snd (enqueue cs ex q vis)) <->
  In x vis \/ exists k, In (Some (x, k)) cs /\ ~ In (x, k) ex.
Proof.
  induction cs as [|[[c k]|] cs IH]; intros ex q vis x; cbn [enqueue].
  - cbn [snd]. split.
    + intro H. left. exact H.
    + intros [H|[k [[] _]]]. exact H.
  - destruct (emem (c, k) ex || mem c vis) eqn:Hb.
    + rewrite IH. split.
      * intros [H|[k' [H1 H2]]].
        -- left. exact H.
        -- right. exists k'. split; [right; exact H1 | exact H2].
      * intros [H|[k' [[H1|H1] H2]]].
        -- left. exact H.
        -- injection H1 as H1 H1'. subst c k'. apply orb_true_iff in Hb.
           destruct Hb as [Hb|Hb].
           ++ apply emem_In in Hb. contradiction.
           ++ apply mem_In in Hb. left. exact Hb.
        -- right. exists k'. split; assumption.
    + apply orb_false_iff in Hb. destruct Hb as [He Hm].
      apply emem_false in He. apply mem_false in Hm.
      rewrite IH. split.
      * intros [[H|H]|[k' [H1 H2]]].
        -- subst x. right. exists k. split; [left; reflexivity | exact He].
        -- left. exact H.
        -- right. exists k'. split; [right; exact H1 | exact H2].
      * intros [H|[k' [[H1|H1] H2]]].
        -- left. right. exact H.
        -- injection H1 as H1 H1'. left. left. exact H1.
        -- right. exists k'. split; assumption.
  - rewrite IH. split.
    + intros [H|[k' [H1 H2]]].
      * left. exact H.
      * right. exists k'. split; [right; exact H1 | exact H2].
    + intros [H|[k' [[H1|H1] H2]]].
      * left. exact H.
      * discriminate H1.
      * right. exists k'. split; assumption.
Qed.

(* the nodes appended to the queue: those children that were not yet visited *)
Lemma enqueue_queue : forall cs ex q vis x,
  In x (fst (enqueue cs ex q vis)) <->
  In x q \/ (~ In x vis /\ exists k, In (Some (x, k)) cs /\ ~ In (x, k) ex).
Proof.
  induction cs as [|[[c k]|] cs IH]; intros ex q vis x; cbn [enqueue].
  - cbn [fst]. split.
    + intro H. left. exact H.
    + intros [H|[_ [k [[] _]]]]. exact H.
  - destruct (emem (c, k) ex || mem c vis) eqn:Hb.
    + rewrite IH. split.
      * intros [H|[Hv [k' [H1 H2]]]].
        -- left. exact H.
        -- right. split; [exact Hv|]. exists k'. split; [right; exact H1 | exact H2].
      * intros [H|[Hv [k' [[H1|H1] H2]]]].
        -- left. exact H.
        -- exfalso. injection H1 as H1 H1'. subst c k'. apply orb_true_iff in Hb.
           destruct Hb as [Hb|Hb].
           ++ apply emem_In in Hb. contradiction.
           ++ apply mem_In in Hb. contradiction.
        -- right. split; [exact Hv|]. exists k'. split; assumption.
    + apply orb_false_iff in Hb. destruct Hb as [He Hm].
      apply emem_false in He. apply mem_false in Hm.
      rewrite IH. rewrite in_app_iff. split.
      * intros [[H|[H|[]]]|[Hv [k' [H1 H2]]]].
        -- left. exact H.
        -- subst x. right. split; [exact Hm|]. exists k. split; [left; reflexivity | exact He].
        -- right. split.
           ++ intro H3. apply Hv. right. exact H3.
           ++ exists k'. split; [right; exact H1 | exact H2].
      * intros [H|[Hv [k' [[H1|H1] H2]]]].
        -- left. left. exact H.
        -- injection H1 as H1 H1'. left. right. left. exact H1.
        -- destruct (Nat.eq_dec c x) as [Hcx|Hcx].
           ++ left. right. left. exact Hcx.
           ++ right. split.
              ** intros [H3|H3]; [exact (Hcx H3) | exact (Hv H3)].
              ** exists k'. split; assumption.
  - rewrite IH. split.
    + intros [H|[Hv [k' [H1 H2]]]].
      * left. exact H.
      * right. split; [exact Hv|]. exists k'. split; [right; exact H1 | exact H2].
    + intros [H|[Hv [k' [[H1|H1] H2]]]].
      * left. exact H.
      * discriminate H1.
      * right. split; [exact Hv|]. exists k'. split; assumption.
Qed.

(* the root nodes the walk starts from *)
Lemma start_queue_In : forall roots excl x,
  In x (start_queue roots excl) <-> exists k, In (x, k) roots /\ ~ In (x, k) excl.
Proof.
  intros roots excl x. unfold start_queue. rewrite dedup_In. rewrite in_map_iff. split.
  - intros [[r k] [Hx Hf]]. cbn [fst] in Hx. subst r. apply filter_In in Hf.
    destruct Hf as [Hr Hn]. apply negb_true_iff in Hn. apply emem_false in Hn.
    exists k. split; assumption.
  - intros [k [Hr Hn]]. exists (x, k). split; [reflexivity|]. apply filter_In.
    split; [exact Hr|]. apply negb_true_iff. apply emem_false. exact Hn.
Qed.

Lemma start_queue_NoDup : forall roots excl, NoDup (start_queue roots excl).
Proof. intros roots excl. unfold start_queue, dedup. apply NoDup_nodup. Qed.

(* number of nodes of [nodes] not yet visited *)
Definition cnt (vis nodes : list nid) : nat :=
  length (filter (fun x => negb (mem x vis)) nodes).

Lemma cnt_nil : forall nodes, cnt [] nodes = length nodes.
Proof.
  intros nodes. unfold cnt. induction nodes as [|a nodes IH].
  - reflexivity.
  - simpl. simpl in IH. rewrite IH. reflexivity.
Qed.

Lemma cnt_cons_notin : forall c vis nodes,
  ~ In c nodes -> cnt (c :: vis) nodes = cnt vis nodes.
Proof.
  intros c vis nodes. unfold cnt. induction nodes as [|a nodes IH]; intros Hc; simpl.
  - reflexivity.
  - assert (Hac : Nat.eqb a c = false).
    { apply Nat.eqb_neq. intro He. apply Hc. left. exact He. }
    rewrite Hac. simpl.
    assert (Hc' : ~ In c nodes). { intro H. apply Hc. right. exact H. }
    specialize (IH Hc'). simpl in IH.
    destruct (mem a vis); simpl; rewrite IH; reflexivity.
Qed.

Lemma cnt_cons_in : forall c vis nodes,
  NoDup nodes -> In c nodes -> ~ In c vis -> S (cnt (c :: vis) nodes) = cnt vis nodes.
Proof.
  intros c vis nodes Hnd. induction Hnd as [|a nodes Ha Hnd IH]; intros Hc Hex.
  - destruct Hc.
  - destruct (Nat.eq_dec a c) as [He|He].
    + subst a. pose proof (cnt_cons_notin c vis nodes Ha) as Hn.
      unfold cnt in *. simpl. rewrite Nat.eqb_refl. simpl.
      apply mem_false in Hex. rewrite Hex. simpl. simpl in Hn. rewrite Hn. reflexivity.
    + destruct Hc as [Hc|Hc]; [contradiction|].
      specialize (IH Hc Hex). unfold cnt in *. simpl.
      apply Nat.eqb_neq in He. rewrite He. simpl. simpl in IH.
      destruct (mem a vis); simpl; rewrite <- IH; reflexivity.
Qed.

(* a duplicate-free sublist of [nodes] and the nodes outside it partition [nodes] *)
Lemma cnt_init : forall nodes, NoDup nodes ->
  forall q, NoDup q -> (forall x, In x q -> In x nodes) ->
  length q + cnt q nodes = length nodes.
Proof.
  intros nodes Hnd q Hq. induction Hq as [|c q Hc Hq IH]; intros Hsub.
  - rewrite cnt_nil. reflexivity.
  - assert (Hsub' : forall x, In x q -> In x nodes).
    { intros x Hx. apply Hsub. right. exact Hx. }
    specialize (IH Hsub').
    pose proof (cnt_cons_in c q nodes Hnd (Hsub c (or_introl eq_refl)) Hc) as Hk.
    cbn [length]. lia.
Qed.

(* every node appended to the queue is a node that becomes visited: the measure is preserved *)
Lemma enqueue_measure : forall nodes, NoDup nodes ->
  forall cs ex q vis,
  (forall c k, In (Some (c, k)) cs -> In c nodes) ->
  length (fst (enqueue cs ex q vis)) + cnt (snd (enqueue cs ex q vis)) nodes
  = length q + cnt vis nodes.
Proof.
  intros nodes Hnd. induction cs as [|[[c k]|] cs IH]; intros ex q vis Hcs; cbn [enqueue].
  - reflexivity.
  - assert (Hcs' : forall c0 k0, In (Some (c0, k0)) cs -> In c0 nodes).
    { intros c0 k0 H0. apply (Hcs c0 k0). right. exact H0. }
    destruct (emem (c, k) ex || mem c vis) eqn:Hb.
    + apply IH. exact Hcs'.
    + rewrite IH by exact Hcs'. rewrite app_length. cbn [length].
      apply orb_false_iff in Hb. destruct Hb as [_ Hm]. apply mem_false in Hm.
      assert (Hc : In c nodes). { apply (Hcs c k). left. reflexivity. }
      pose proof (cnt_cons_in c vis nodes Hnd Hc Hm) as Hk. lia.
  - apply IH. intros c0 k0 H0. apply (Hcs c0 k0). right. exact H0.
Qed.

Section TraverseProofs.
Variable next : nid -> list (option edge).
Variable acc : nid -> option tid.

(* a path n -> ... -> m along next_functions none of whose EDGES is excluded *)
Inductive epath (excl : list edge) : nid -> nid -> Prop :=
| ep_refl : forall n, epath excl n n
| ep_step : forall n c k m, In (Some (c, k)) (next n) -> ~ In (c, k) excl -> epath excl c m -> epath excl n m.

Lemma epath_snoc : forall E r n c k,
  epath E r n -> In (Some (c, k)) (next n) -> ~ In (c, k) E -> epath E r c.
Proof.
  intros E r n c k Hp. induction Hp as [n | n d j m Hd Hnd Hp IH]; intros Hc Hex.
  - eapply ep_step; [exact Hc | exact Hex | apply ep_refl].
  - eapply ep_step; [exact Hd | exact Hnd | apply IH; assumption].
Qed.

(* invariant of the loop w.r.t. the excluded edge set E0 and the set V of popped nodes *)
Definition Inv (roots E0 : list edge) (V queue vis result : list nid) : Prop :=
  (forall x, In x queue \/ In x V ->
     exists r k, In (r, k) roots /\ ~ In (r, k) E0 /\ epath E0 r x) /\
  (forall x, In x vis -> In x V \/ In x queue) /\
  (forall v c k, In v V -> In (Some (c, k)) (next v) -> ~ In (c, k) E0 -> In c vis) /\
  (forall a, In a result <-> acc a <> None /\ In a V) /\
  NoDup result /\
  (forall r k, In (r, k) roots -> ~ In (r, k) E0 -> In r vis).

Lemma Inv_init : forall roots E0,
  Inv roots E0 [] (start_queue roots E0) (start_queue roots E0) [].
Proof.
  intros roots E0. unfold Inv.
  split; [|split; [|split; [|split; [|split]]]].
  - intros x [Hx|[]]. apply start_queue_In in Hx. destruct Hx as [k [Hr Hn]].
    exists x, k. split; [exact Hr | split; [exact Hn | apply ep_refl]].
  - intros x Hx. right. exact Hx.
  - intros v c k [].
  - intros a. split.
    + intros [].
    + intros [_ []].
  - constructor.
  - intros r k Hr Hn. apply start_queue_In. exists k. split; assumption.
Qed.

Lemma Inv_step : forall roots E0 V n q vis result,
  Inv roots E0 V (n :: q) vis result ->
  Inv roots E0 (n :: V)
      (fst (enqueue (next n) E0 q vis)) (snd (enqueue (next n) E0 q vis))
      (match acc n with
       | Some _ => if mem n result then result else n :: result
       | None => result
       end).
Proof.
  intros roots E0 V n q vis result (H1 & H2 & H3 & H4 & H5 & H6).
  unfold Inv. split; [|split; [|split; [|split; [|split]]]].
  - intros x [Hx|[Hx|Hx]].
    + apply enqueue_queue in Hx. destruct Hx as [Hx|[_ [k [Hc Hex]]]].
      * apply H1. left. right. exact Hx.
      * destruct (H1 n (or_introl (or_introl eq_refl))) as [r [j [Hr [Hrn Hp]]]].
        exists r, j. split; [exact Hr | split; [exact Hrn|]].
        eapply epath_snoc; [exact Hp | exact Hc | exact Hex].
    + subst x. apply H1. left. left. reflexivity.
    + apply H1. right. exact Hx.
  - intros x Hx. apply enqueue_visited in Hx.
    assert (Hold : In x vis -> In x (n :: V) \/ In x (fst (enqueue (next n) E0 q vis))).
    { intro Hx'. destruct (H2 x Hx') as [H|[H|H]].
      - left. right. exact H.
      - left. left. exact H.
      - right. apply enqueue_queue. left. exact H. }
    destruct Hx as [Hx|[k [Hc Hex]]].
    + apply Hold. exact Hx.
    + destruct (in_dec Nat.eq_dec x vis) as [Hi|Hi].
      * apply Hold. exact Hi.
      * right. apply enqueue_queue. right. split; [exact Hi|].
        exists k. split; assumption.
  - intros v c k [Hv|Hv] Hc Hex.
    + subst v. apply enqueue_visited. right. exists k. split; assumption.
    + apply enqueue_visited. left. eapply H3; eassumption.
  - intros a. destruct (acc n) as [t|] eqn:Hacc.
    + destruct (mem n result) eqn:Hm.
      * apply mem_In in Hm. rewrite H4. split.
        -- intros [Ha Hv]. split; [exact Ha | right; exact Hv].
        -- intros [Ha [Hv|Hv]].
           ++ subst a. apply H4. exact Hm.
           ++ split; assumption.
      * cbn [In]. rewrite H4. split.
        -- intros [Ha|[Ha Hv]].
           ++ subst a. split; [congruence | left; reflexivity].
           ++ split; [exact Ha | right; exact Hv].
        -- intros [Ha [Hv|Hv]].
           ++ left. exact Hv.
           ++ right. split; assumption.
    + rewrite H4. split.
      * intros [Ha Hv]. split; [exact Ha | right; exact Hv].
      * intros [Ha [Hv|Hv]].
        -- subst a. congruence.
        -- split; assumption.
  - destruct (acc n) as [t|]; [|exact H5].
    destruct (mem n result) eqn:Hm; [exact H5|].
    apply mem_false in Hm. constructor; assumption.
  - intros r k Hr Hex. apply enqueue_visited. left. exact (H6 r k Hr Hex).
Qed.

Lemma Inv_final : forall roots E0 V vis res,
  Inv roots E0 V [] vis res ->
  (forall a, In a res <->
     (acc a <> None /\ exists r k, In (r, k) roots /\ ~ In (r, k) E0 /\ epath E0 r a)) /\
  NoDup res.
Proof.
  intros roots E0 V vis res (H1 & H2 & H3 & H4 & H5 & H6).
  split; [|exact H5].
  assert (Hvis : forall x, In x vis -> In x V).
  { intros x Hx. destruct (H2 x Hx) as [H|[]]. exact H. }
  assert (Hclosed : forall n m, epath E0 n m -> In n V -> In m V).
  { intros n m Hp. induction Hp as [n | n c k m Hc Hex Hp IH]; intros Hv.
    - exact Hv.
    - apply IH. apply Hvis. exact (H3 n c k Hv Hc Hex). }
  intros a. rewrite H4. split.
  - intros [Ha Hv]. split; [exact Ha|]. apply H1. right. exact Hv.
  - intros [Ha [r [k [Hr [Hex Hp]]]]]. split; [exact Ha|].
    apply (Hclosed r a Hp). apply Hvis. exact (H6 r k Hr Hex).
Qed.

Lemma bfs_inv : forall roots E0 fuel V queue vis result res,
  Inv roots E0 V queue vis result ->
  bfs next acc fuel E0 queue vis result = Some res ->
  (forall a, In a res <->
     (acc a <> None /\ exists r k, In (r, k) roots /\ ~ In (r, k) E0 /\ epath E0 r a)) /\
  NoDup res.
Proof.
  intros roots E0. induction fuel as [|f IH]; intros V queue vis result res HI Hb.
  - cbn [bfs] in Hb. discriminate Hb.
  - cbn [bfs] in Hb. destruct queue as [|n q].
    + injection Hb as Hb. subst res. eapply Inv_final. exact HI.
    + eapply IH; [|exact Hb]. apply Inv_step. exact HI.
Qed.

(* soundness and completeness: whenever the walk terminates, the result is exactly the set of
   AccumulateGrad nodes reachable from a non-excluded root edge along paths whose edges are all
   non-excluded.  Any graph, cyclic or not. *)
Lemma bfs_sound_complete : forall fuel roots excl res,
  descendant_accumulate_grads next acc fuel roots excl = Some res ->
  forall a, In a res <->
    (acc a <> None /\ exists r k, In (r, k) roots /\ ~ In (r, k) excl /\ epath excl r a).
Proof.
  intros fuel roots excl res H. unfold descendant_accumulate_grads in H.
  exact (proj1 (bfs_inv roots excl fuel [] _ _ _ res (Inv_init roots excl) H)).
Qed.

Lemma bfs_result_nodup : forall fuel roots excl res,
  descendant_accumulate_grads next acc fuel roots excl = Some res -> NoDup res.
Proof.
  intros fuel roots excl res H. unfold descendant_accumulate_grads in H.
  exact (proj2 (bfs_inv roots excl fuel [] _ _ _ res (Inv_init roots excl) H)).
Qed.

Lemma bfs_fuel_gen : forall nodes,
  NoDup nodes ->
  (forall n c k, In n nodes -> In (Some (c, k)) (next n) -> In c nodes) ->
  forall fuel ex queue vis result,
  (forall x, In x queue -> In x nodes) ->
  length queue + cnt vis nodes < fuel ->
  bfs next acc fuel ex queue vis result <> None.
Proof.
  intros nodes Hnd Hcl. induction fuel as [|f IH]; intros ex queue vis result Hq Hlt.
  - lia.
  - cbn [bfs]. destruct queue as [|n q].
    + discriminate.
    + assert (Hn : In n nodes). { apply Hq. left. reflexivity. }
      assert (Hcs : forall c k, In (Some (c, k)) (next n) -> In c nodes).
      { intros c k Hc. eapply Hcl; eassumption. }
      apply IH.
      * intros x Hx. apply enqueue_queue in Hx. destruct Hx as [Hx|[_ [k [Hx _]]]].
        -- apply Hq. right. exact Hx.
        -- apply (Hcs x k). exact Hx.
      * rewrite (enqueue_measure nodes Hnd (next n) ex q vis Hcs).
        cbn [length] in Hlt. lia.
Qed.

(* the out-of-fuel branch is unreachable for a finite graph: every node enters the queue at most once *)
Lemma bfs_fuel_suffices : forall nodes fuel roots excl,
  NoDup nodes ->
  (forall r k, In (r, k) roots -> In r nodes) ->
  (forall n c k, In n nodes -> In (Some (c, k)) (next n) -> In c nodes) ->
  length nodes < fuel ->
  descendant_accumulate_grads next acc fuel roots excl <> None.
Proof.
  intros nodes fuel roots excl Hnd Hr Hcl Hlt. unfold descendant_accumulate_grads.
  assert (Hsub : forall x, In x (start_queue roots excl) -> In x nodes).
  { intros x Hx. apply start_queue_In in Hx. destruct Hx as [k [Hx _]].
    exact (Hr x k Hx). }
  apply (bfs_fuel_gen nodes Hnd Hcl).
  - exact Hsub.
  - rewrite (cnt_init nodes Hnd _ (start_queue_NoDup roots excl) Hsub). exact Hlt.
Qed.
End TraverseProofs.

Print Assumptions bfs_sound_complete.
Print Assumptions bfs_result_nodup.
Print Assumptions bfs_fuel_suffices.
