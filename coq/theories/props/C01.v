(* C01 — backward() deposits the aggregation of the true Jacobian into .grad.  Obligations only. *)
From Coq Require Import List Bool Arith.
From TJ Require Import Num Linalg Chunk Autojac.
Import ListNotations.

Theorem C01_empty_tensors_rejected : forall T (N : Num T) P A ord k retain s,
  backward_model N P A [] ord k retain s = (Err ValueError, s).
Proof. intros. unfold backward_model. destruct (valid_chunk k); reflexivity. Qed.
Print Assumptions C01_empty_tensors_rejected.
