(* C01 — backward() deposits the aggregation of the true Jacobian into .grad.  Obligations only.
   Instance: real numbers (every finite float is a real).  P ranges over all autograd programs
   (any number of tensors, shapes, reuse), A over all aggregators (any function). *)
From Coq Require Import Reals List Bool Arith.
From TJ Require Import Num Linalg NumR Chunk Autojac.
From TJ.proofs Require Import LinalgR AutojacBasics AutojacSpec C01Proofs.
Import ListNotations.

(* an accepted call adds to the .grad of EVERY input exactly its own slice (reshaped to the
   input's shape) of A(J), J = the true Jacobian whose rows are the scalars of `tensors`
   (flattened, in the order given) and whose columns are the scalars of the inputs in the
   enumeration order `ord` of the input set; no other .grad changes.  For every chunk size and
   both retain flags. *)
Theorem C01_deposit : forall (P : prog R) (A : list (list R) -> res (list R))
    tensors ord k retain s d' s',
  wf_prog P -> ord <> [] -> (1 <= total P tensors)%nat ->
  backward_model RN P A tensors ord k retain s = (Ok d', s') ->
  NoDup tensors /\ NoDup ord /\
  exists v, A (jacobian P tensors ord) = Ok v /\ length v = total P ord /\
    (forall i, In i ord ->
       grad_val s' i = Some (acc_val (grad_val s i) (plain (p_shape P i) (slice_of P ord v i)))) /\
    (forall t, ~ In t ord -> sget s' t = sget s t).
Proof. exact backward_deposit. Qed.
Print Assumptions C01_deposit.

Theorem C01_no_inputs : forall (P : prog R) A tensors k retain s d' s',
  backward_model RN P A tensors [] k retain s = (Ok d', s') -> s_grads s' = s_grads s.
Proof. exact backward_no_inputs. Qed.
Print Assumptions C01_no_inputs.

(* an input that does not influence the outputs contributes a zero column block *)
Theorem C01_unreachable_zero : forall (P : prog R) outs i,
  wf_prog P -> (forall o, In o outs -> p_reach P o i = false) ->
  Forall (fun row => row = vzeroR (pnumel P i)) (Drows P outs i).
Proof. exact unreachable_zero_block. Qed.
Print Assumptions C01_unreachable_zero.

(* rows follow the order in which the tensors are given *)
Theorem C01_rows_follow_tensor_order : forall (P : prog R) a b ord,
  wf_prog P -> jacobian P (a ++ b) ord = jacobian P a ord ++ jacobian P b ord.
Proof. exact jacobian_rows_app. Qed.
Print Assumptions C01_rows_follow_tensor_order.

(* the engine contract used above, as a lemma of the model: the VJP of the r-th one-hot cotangent
   is the r-th row of the stacked total derivative (a tensor reached through several paths
   contributes its TOTAL derivative: D is the total-derivative block) *)
Theorem C01_onehot_row : forall (P : prog R) i outs r,
  wf_prog P -> (r < total P outs)%nat ->
  vjp RN P outs (split_by (map (pnumel P) outs) (onehotR (total P outs) r 1%R)) i
  = nth r (Drows P outs i) [].
Proof. exact vjp_onehot. Qed.
Print Assumptions C01_onehot_row.

(* TOTALITY: a call with valid arguments IS accepted — every input expects a grad, one engine run
   from the tensors to the inputs would succeed in the current state, the aggregator accepts the
   Jacobian with a vector of the right length — for EVERY chunk size and both flags *)
From TJ.proofs Require Import EntrySpec C13Proofs AcceptProofs.
Theorem C01_accepts : forall (P : prog R) (A : list (list R) -> res (list R)) tensors ord k retain s v,
  wf_prog P ->
  valid_chunk k = true -> tensors <> [] -> NoDup tensors -> NoDup ord -> ord <> [] ->
  (1 <= total P tensors)%nat ->
  expects_all P ord = true ->
  sweep_ok P s tensors ord = true ->
  A (jacobian P tensors ord) = Ok v -> length v = total P ord ->
  exists d' s', backward_model RN P A tensors ord k retain s = (Ok d', s').
Proof. exact backward_accepts. Qed.
Print Assumptions C01_accepts.
(* and these are the ONLY ways an argument-valid call can fail *)
Theorem C01_failure_causes : forall (P : prog R) A tensors ord k retain s e s',
  wf_prog P -> backward_args_ok tensors ord k retain = true -> ord <> [] ->
  (1 <= total P tensors)%nat ->
  backward_model RN P A tensors ord k retain s = (Err e, s') ->
  sweep_ok P s tensors ord = false \/
  A (jacobian P tensors ord) = Err e \/
  (exists v, A (jacobian P tensors ord) = Ok v /\ length v <> total P ord) \/
  expects_all P ord = false.
Proof. exact backward_failure_causes. Qed.
Print Assumptions C01_failure_causes.

(* non-vacuity (executable instance QN): a concrete accepted call.  y = (2 x0, 3 x1), Constant(1,10):
   x.grad goes from absent to (2, 30), for chunk sizes None, 1 and 3 *)
From Coq Require Import QArith.
From TJ Require Import NumQ Agg AutojacShow.
Example C01_accepted_call :
  let P := mk_prog [[2%nat]; [2%nat]] [(1%nat, 0%nat, [[2#1; 0#1]; [0#1; 3#1]])] [(1%nat, 0%nat)]
                   [true; true] [true; false] [None; Some 0%nat] [Some 1%nat; Some 0%nat]
                   [[Some 1%nat]; []] [None; Some 0%nat] [true; false] in
  map (fun k => show_grads (snd (backward_model QN P (agg_constant QN [1#1; 10#1]) [1%nat] [0%nat] k false
                                  (mk_store [] [] 0%nat))) [0%nat])
      [None; Some 1%nat; Some 3%nat]
  = repeat [Some (0%nat, ([2%nat], [(2%Z, 1%Z); (30%Z, 1%Z)]))] 3.
Proof. vm_compute. reflexivity. Qed.

(* INSTANCE GAP CLOSED: the model is executed at QN (exact rationals) by the correspondence check and
   the theorems above are stated at RN.  The whole autojac model commutes with every map that
   preserves 0, 1, + and * (it uses no other numeric operation), in particular with Q2R: the value
   computed by vm_compute at QN, mapped to R, IS the value the theorems speak about. *)
From TJ.proofs Require Import TransferProofs.
Theorem C01_model_is_a_ring_homomorphism_invariant :
  forall (T U : Type) (NT : Num T) (NU : Num U) (phi : T -> U),
  phi (n0 NT) = n0 NU -> phi (n1 NT) = n1 NU ->
  (forall a b, phi (nadd NT a b) = nadd NU (phi a) (phi b)) ->
  (forall a b, phi (nmul NT a b) = nmul NU (phi a) (phi b)) ->
  forall P A A', agg_hom phi A A' -> forall tensors ord k retain s,
  backward_model NU (mprog phi P) A' tensors ord k retain (mstore phi s)
  = (mres phi (fst (backward_model NT P A tensors ord k retain s)),
     mstore phi (snd (backward_model NT P A tensors ord k retain s))).
Proof. exact @backward_hom. Qed.
Print Assumptions C01_model_is_a_ring_homomorphism_invariant.
Theorem C01_executed_model_is_the_real_model : forall (P : prog Q) A A', agg_hom Q2R A A' ->
  forall tensors ord k retain s,
  backward_model RN (mprog Q2R P) A' tensors ord k retain (mstore Q2R s)
  = (mres Q2R (fst (backward_model QN P A tensors ord k retain s)),
     mstore Q2R (snd (backward_model QN P A tensors ord k retain s))).
Proof. exact backward_Q_to_R. Qed.
Print Assumptions C01_executed_model_is_the_real_model.
(* the aggregators used by the correspondence are related across the two instances *)
Theorem C01_constant_sum_mean_transfer :
  (forall w, agg_hom Q2R (agg_constant QN w) (agg_constant RN (map Q2R w))) /\
  agg_hom Q2R (fun J => Ok (agg_sum QN J)) (fun J => Ok (agg_sum RN J)) /\
  agg_hom Q2R (fun J => Ok (agg_mean QN J)) (fun J => Ok (agg_mean RN J)).
Proof. exact (conj agg_constant_Q_to_R (conj agg_sum_Q_to_R agg_mean_Q_to_R)). Qed.
Print Assumptions C01_constant_sum_mean_transfer.
