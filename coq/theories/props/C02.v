(* C02 — mtl_backward(): own-task gradients for heads, aggregated Jacobian for the trunk.
   Obligations only.  Instance: real numbers; every program, any number/shape of features, any
   number of tasks, parameters per task and sharing between tasks, every chunk size. *)
From Coq Require Import Reals List Bool Arith.
From TJ Require Import Num Linalg NumR Chunk Autojac.
From TJ.proofs Require Import LinalgR AutojacBasics AutojacSpec C01Proofs C02Proofs.
Import ListNotations.

(* an accepted call adds
   - to every shared parameter its own slice of A(M), where row i of M is the gradient of
     losses[i] w.r.t. the shared parameters back-propagated through `features` (mtl_matrix:
     row i is built from losses[i]);
   - to every task-specific parameter, for each task listing it (in order), the gradient of that
     task's loss w.r.t. it (task_updates);
   and changes no other .grad *)
Theorem C02_deposit : forall (P : prog R) (A : list (list R) -> res (list R))
    losses features tasks shared k retain s d' s',
  wf_prog P -> shared <> [] ->
  mtl_backward_model RN P A losses features tasks shared k retain s = (Ok d', s') ->
  exists v, A (mtl_matrix P features shared losses) = Ok v /\ length v = total P shared /\
    (forall p, In p shared ->
       grad_val s' p = Some (acc_val (grad_val s p) (plain (p_shape P p) (slice_of P shared v p)))) /\
    (forall q, In q (concat tasks) -> grad_val s' q = task_updates P tasks losses q (grad_val s q)) /\
    (forall t, ~ In t (shared ++ concat tasks) -> sget s' t = sget s t).
Proof. exact mtl_deposit. Qed.
Print Assumptions C02_deposit.

Theorem C02_no_shared : forall (P : prog R) A losses features tasks k retain s d' s',
  wf_prog P ->
  mtl_backward_model RN P A losses features tasks [] k retain s = (Ok d', s') ->
  (forall q, In q (concat tasks) -> grad_val s' q = task_updates P tasks losses q (grad_val s q)) /\
  (forall t, ~ In t (concat tasks) -> sget s' t = sget s t).
Proof. exact mtl_no_shared. Qed.
Print Assumptions C02_no_shared.

(* row i always belongs to losses[i]: the matrix is the map of the per-loss row over `losses` *)
Theorem C02_rows_follow_losses : forall (P : prog R) features shared losses i,
  nth i (mtl_matrix P features shared losses) [] =
  match nth_error losses i with Some l => mtl_row P features shared l | None => [] end.
Proof.
  intros P features shared losses. unfold mtl_matrix.
  induction losses as [|l losses IH]; intros [|i]; cbn; try reflexivity. apply IH.
Qed.
Print Assumptions C02_rows_follow_losses.

(* TOTALITY: all argument checks pass + every engine run the call issues (one per task, then the
   trunk) succeeds in the state in which it is issued + the aggregator accepts the matrix
   ==> the call is accepted *)
From TJ.proofs Require Import EntrySpec C13Proofs AcceptProofs.
Theorem C02_accepts : forall (P : prog R) (A : list (list R) -> res (list R))
    losses features tasks shared k retain s v,
  wf_prog P -> shared <> [] ->
  mtl_args_ok P losses features tasks shared k retain = true ->
  mtl_engine_ok_at P retain s losses features tasks shared ->
  A (mtl_matrix P features shared losses) = Ok v -> length v = total P shared ->
  exists d' s', mtl_backward_model RN P A losses features tasks shared k retain s = (Ok d', s').
Proof. exact mtl_accepts_at. Qed.
Print Assumptions C02_accepts.

(* non-vacuity (executable instance): two tasks over one feature f = 2x; losses p*f and 3f;
   Constant(1,10): x.grad = 1*2p + 10*6 = 2*5+60, p.grad = f = 2*4 *)
From Coq Require Import QArith.
From TJ Require Import NumQ Agg AutojacShow Traverse.
Example C02_accepted_call :
  let P := mk_prog [[]; []; []; []; []]
     [(3%nat, 1%nat, [[8#1]]); (3%nat, 2%nat, [[5#1]]); (4%nat, 2%nat, [[3#1]]); (2%nat, 0%nat, [[2#1]])]
     [(3%nat, 1%nat); (3%nat, 2%nat); (4%nat, 2%nat); (2%nat, 0%nat)]
     [true; true; true; true; true] [true; true; false; false; false]
     [] [] [] [] [] in
  show_grads (snd (mtl_backward_model QN P (agg_constant QN [1#1; 10#1]) [3%nat; 4%nat] [2%nat]
                     [[1%nat]; []] [0%nat] None false (mk_store [] [] 0%nat))) [0%nat; 1%nat]
  = [Some (1%nat, ([], [(70%Z, 1%Z)])); Some (0%nat, ([], [(8%Z, 1%Z)]))].
Proof. vm_compute. reflexivity. Qed.

(* the executed (QN) model of mtl_backward, mapped to R, is the real model the theorems speak about *)
From TJ.proofs Require Import TransferProofs.
Theorem C02_executed_model_is_the_real_model : forall (P : prog Q) A A', agg_hom Q2R A A' ->
  forall losses features tasks shared k retain s,
  mtl_backward_model RN (mprog Q2R P) A' losses features tasks shared k retain (mstore Q2R s)
  = (mres Q2R (fst (mtl_backward_model QN P A losses features tasks shared k retain s)),
     mstore Q2R (snd (mtl_backward_model QN P A losses features tasks shared k retain s))).
Proof. exact mtl_Q_to_R. Qed.
Print Assumptions C02_executed_model_is_the_real_model.

(* ---- END TO END (added): when the features form a cut between the losses and the shared parameters
   (D loss p = sum_f D loss f * D f p), the matrix handed to the aggregator IS the true Jacobian of the
   losses w.r.t. the shared parameters, and mtl_backward updates the shared parameters exactly as
   backward(losses, A, inputs = shared) would, for ANY aggregator ---- *)
From TJ.proofs Require Import C05Proofs C15Proofs EndToEndProofs.
Theorem C02_matrix_is_jacobian : forall (P : prog R) features shared losses,
  wf_prog P ->
  (forall l, In l losses -> pnumel P l = 1%nat) ->
  (forall l p, In l losses -> In p shared -> is_cut P [l] features p) ->
  mtl_matrix P features shared losses = jacobian P losses shared.
Proof. exact mtl_matrix_is_jacobian. Qed.
Print Assumptions C02_matrix_is_jacobian.
Theorem C02_equals_backward_on_shared : forall (P : prog R) A losses features tasks shared k retain s d' s' kb retainb db sb',
  wf_prog P -> shared <> [] ->
  (forall l p, In l losses -> In p shared -> is_cut P [l] features p) ->
  mtl_backward_model RN P A losses features tasks shared k retain s = (Ok d', s') ->
  backward_model RN P A losses shared kb retainb s = (Ok db, sb') ->
  forall p, In p shared -> grad_val s' p = grad_val sb' p.
Proof. exact mtl_equals_backward_on_shared_same_store. Qed.
Print Assumptions C02_equals_backward_on_shared.
