(* C03 — UPGrad / DualProj return the exact (regularised) dual-cone projection.  Obligations only.
   qp is the QP kernel (quadprog) as an oracle; its contract (is_min) is a hypothesis; the harness
   re-checks the exact KKT certificate (kktb) of every oracle answer it feeds to the model. *)
From Coq Require Import Reals List Bool Arith.
From TJ Require Import Num Linalg NumR Agg.
From TJ.proofs Require Import LinalgR QPProofs C03Proofs.
Import ListNotations.
Local Open Scope R_scope.

(* an exact KKT certificate proves minimality (M symmetric PSD) *)
Theorem C03_kkt_sound : forall m M u w, length M = m -> symm m M -> psd m M ->
  length w = m -> kktb RN M u w = true -> is_min m M u w.
Proof. exact kktb_sound. Qed.
Print Assumptions C03_kkt_sound.

(* the regularised normalised Gramian of any J is symmetric PSD, so the certificate applies *)
Theorem C03_M_symmetric_psd : forall n J s ne re, wfmat n J -> 0 < s -> nltb RN s ne = false ->
  0 <= re ->
  let M := reg_norm_gramian RN (gramR J) s ne re in
  length M = length J /\ symm (length J) M /\ psd (length J) M.
Proof.
  intros n J s ne re HJ Hs Hne Hre M. split; [apply length_M; exact Hne|].
  split; [eapply symm_M; eassumption | eapply psd_M; eassumption].
Qed.
Print Assumptions C03_M_symmetric_psd.

(* "the unique minimiser" *)
Theorem C03_min_unique : forall n J s ne re, wfmat n J -> 0 < s -> nltb RN s ne = false ->
  forall u w1 w2, 0 < re ->
  is_min (length J) (reg_norm_gramian RN (gramR J) s ne re) u w1 ->
  is_min (length J) (reg_norm_gramian RN (gramR J) s ne re) u w2 -> w1 = w2.
Proof. exact min_unique. Qed.
Print Assumptions C03_min_unique.

(* DualProj(pref)(J) = w . J with w THE minimiser of v^T (G/s^2 + reg_eps I) v, v >= u *)
Theorem C03_dualproj : forall n J s ne re pref qp,
  wfmat n J -> 0 < s -> nltb RN s ne = false -> 0 < re -> pref_ok pref (length J) ->
  let m := length J in let u := pref_u pref m in
  let M := reg_norm_gramian RN (gramR J) s ne re in
  is_min m M u (qp M u) ->
  agg_dualproj RN qp pref s ne re J = Ok (combineR J (qp M u)) /\
  (forall w', is_min m M u w' -> w' = qp M u).
Proof. intros. apply (dualproj_spec n); assumption. Qed.
Print Assumptions C03_dualproj.

(* UPGrad(pref)(J) = (sum_i w_i) . J with w_i THE minimiser for u_i e_i *)
Theorem C03_upgrad : forall n J s ne re pref qp,
  wfmat n J -> 0 < s -> nltb RN s ne = false -> 0 < re -> pref_ok pref (length J) ->
  let m := length J in let u := pref_u pref m in
  let M := reg_norm_gramian RN (gramR J) s ne re in
  let ui := fun i => onehotR m i (vget RN u i) in
  (forall i, (i < m)%nat -> is_min m M (ui i) (qp M (ui i))) ->
  agg_upgrad RN qp pref s ne re J =
    Ok (combineR J (vsum_rows RN m (map (fun i => qp M (ui i)) (seq 0 m)))) /\
  (forall i w', (i < m)%nat -> is_min m M (ui i) w' -> w' = qp M (ui i)).
Proof. intros. apply (upgrad_spec n); assumption. Qed.
Print Assumptions C03_upgrad.

(* no two rows with a negative inner product, u >= 0  ==>  exactly u . J *)
Theorem C03_no_conflict_dualproj : forall n J s ne re pref qp,
  wfmat n J -> 0 < s -> nltb RN s ne = false -> 0 < re -> pref_ok pref (length J) ->
  (forall r r', In r J -> In r' J -> 0 <= dotR r r') ->
  let m := length J in let u := pref_u pref m in
  let M := reg_norm_gramian RN (gramR J) s ne re in
  nonneg u -> is_min m M u (qp M u) ->
  agg_dualproj RN qp pref s ne re J = Ok (combineR J u).
Proof. intros. apply (dualproj_no_conflict n); assumption. Qed.
Print Assumptions C03_no_conflict_dualproj.

Theorem C03_no_conflict_upgrad : forall n J s ne re pref qp,
  wfmat n J -> 0 < s -> nltb RN s ne = false -> 0 < re -> pref_ok pref (length J) ->
  (forall r r', In r J -> In r' J -> 0 <= dotR r r') ->
  let m := length J in let u := pref_u pref m in
  let M := reg_norm_gramian RN (gramR J) s ne re in
  let ui := fun i => onehotR m i (vget RN u i) in
  nonneg u -> (forall i, (i < m)%nat -> is_min m M (ui i) (qp M (ui i))) ->
  agg_upgrad RN qp pref s ne re J = Ok (combineR J u).
Proof. intros. apply (upgrad_no_conflict n); assumption. Qed.
Print Assumptions C03_no_conflict_upgrad.

(* s < norm_eps  ==>  u . J as well *)
Theorem C03_below_norm_eps : forall J s ne re pref qp,
  nltb RN s ne = true -> 0 < re -> pref_ok pref (length J) ->
  let m := length J in let u := pref_u pref m in
  let M := reg_norm_gramian RN (gramR J) s ne re in
  nonneg u -> is_min m M u (qp M u) ->
  agg_dualproj RN qp pref s ne re J = Ok (combineR J u).
Proof. exact dualproj_below_norm_eps. Qed.
Print Assumptions C03_below_norm_eps.

(* a preference vector of the wrong length is rejected *)
Theorem C03_bad_pref_rejected : forall J s ne re p qp, length p <> length J ->
  agg_dualproj RN qp (Some p) s ne re J = Err ValueError /\
  agg_upgrad RN qp (Some p) s ne re J = Err ValueError.
Proof.
  intros. unfold agg_dualproj, agg_upgrad. rewrite pref_weights_bad by assumption. split; reflexivity.
Qed.
Print Assumptions C03_bad_pref_rejected.

(* ---- the explanatory clause (added): without regularisation the QP answer IS the projection of
   u.J onto the dual cone {y | J y >= 0} (variational and closest-point forms), derived from
   is_min alone ---- *)
From TJ.proofs Require Import C18Proofs MgdaProofs PublishedProofs.
Theorem C03_is_dual_cone_projection : forall n J u w, wfmat n J -> is_min (length J) (gramR J) u w ->
  let x := vmR n w J in
  let p := vmR n u J in
  dual_cone J x /\
  (forall y, length y = n -> dual_cone J y -> 0 <= dotR (vsubR x p) (vsubR y x)) /\
  (forall y, length y = n -> dual_cone J y ->
     dotR (vsubR x p) (vsubR x p) <= dotR (vsubR y p) (vsubR y p)).
Proof. exact dual_cone_projection. Qed.
Print Assumptions C03_is_dual_cone_projection.
Theorem C03_dualproj_unregularised : forall n J s ne pref qp,
  wfmat n J -> J <> [] -> 0 < s -> nltb RN s ne = false -> pref_ok pref (length J) ->
  let m := length J in
  let u := pref_u pref m in
  let M := reg_norm_gramian RN (gramR J) s ne 0 in
  is_min m M u (qp M u) ->
  let x := vmR n (qp M u) J in
  let p := vmR n u J in
  agg_dualproj RN qp pref s ne 0 J = Ok x /\
  dual_cone J x /\
  (forall y, length y = n -> dual_cone J y -> 0 <= dotR (vsubR x p) (vsubR y x)) /\
  (forall y, length y = n -> dual_cone J y ->
     dotR (vsubR x p) (vsubR x p) <= dotR (vsubR y p) (vsubR y p)).
Proof. exact dualproj_unregularised_projection. Qed.
Print Assumptions C03_dualproj_unregularised.

(* ---- instance gap (added): the exact KKT certificate checked at QN by the correspondence IS the
   certificate of the real-number theorem, and the executed UPGrad/DualProj models map to the real ones
   for related QP oracles (Q2R preserves 0,1,+,-,*,/,<=,< and the embedding of naturals) ---- *)
From Coq Require Import QArith Qreals.
From TJ Require Import NumQ.
From TJ.proofs Require Import TransferProofs TransferAggProofs.
Theorem C03_kkt_certificate_transfers : forall G u w,
  kktb RN (map (map Q2R) G) (map Q2R u) (map Q2R w) = kktb QN G u w.
Proof. exact kktb_Q_to_R. Qed.
Print Assumptions C03_kkt_certificate_transfers.
Theorem C03_executed_upgrad_is_the_real_model : forall qpQ qpR,
  (forall G u, qpR (map (map Q2R) G) (map Q2R u) = map Q2R (qpQ G u)) ->
  forall pref s norm_eps reg_eps J,
  agg_upgrad RN qpR (option_map (map Q2R) pref) (Q2R s) (Q2R norm_eps) (Q2R reg_eps) (map (map Q2R) J)
  = match agg_upgrad QN qpQ pref s norm_eps reg_eps J with Ok v => Ok (map Q2R v) | Err e => Err e end.
Proof. exact agg_upgrad_Q_to_R. Qed.
Print Assumptions C03_executed_upgrad_is_the_real_model.
Theorem C03_executed_dualproj_is_the_real_model : forall qpQ qpR,
  (forall G u, qpR (map (map Q2R) G) (map Q2R u) = map Q2R (qpQ G u)) ->
  forall pref s norm_eps reg_eps J,
  agg_dualproj RN qpR (option_map (map Q2R) pref) (Q2R s) (Q2R norm_eps) (Q2R reg_eps) (map (map Q2R) J)
  = match agg_dualproj QN qpQ pref s norm_eps reg_eps J with Ok v => Ok (map Q2R v) | Err e => Err e end.
Proof. exact agg_dualproj_Q_to_R. Qed.
Print Assumptions C03_executed_dualproj_is_the_real_model.

(* ---- the premise `nltb RN s ne = false` of the theorems above is exactly "s >= norm_eps", EQUALITY INCLUDED:
   a matrix whose largest singular value equals norm_eps is projected, not averaged (the harness runs the
   implementation on matrices whose sigma_max is returned exactly by the SVD, aggrun.exact_boundary) ---- *)
Theorem C03_threshold_is_inclusive : forall s ne : R,
  (nltb RN s ne = false <-> (ne <= s)%R) /\ nltb RN s s = false.
Proof.
  intros s ne. split.
  - exact (Rltb_false s ne).
  - apply (proj2 (Rltb_false s s)). apply Rle_refl.
Qed.
Print Assumptions C03_threshold_is_inclusive.
Theorem C03_dualproj_at_the_threshold : forall n J s re pref qp,
  wfmat n J -> (0 < s)%R -> (0 < re)%R -> pref_ok pref (length J) ->
  let m := length J in let u := pref_u pref m in
  let M := reg_norm_gramian RN (gramR J) s s re in
  is_min m M u (qp M u) ->
  agg_dualproj RN qp pref s s re J = Ok (combineR J (qp M u)).
Proof.
  intros n J s re pref qp HJ Hs Hre Hp m u M Hq.
  apply (C03_dualproj n J s s re pref qp); try assumption.
  apply (proj2 (Rltb_false s s)). apply Rle_refl.
Qed.
Print Assumptions C03_dualproj_at_the_threshold.

(* ---- THE minimiser named in the statement exists (added): a sup-norm-Lipschitz function attains its minimum on a box
   (induction on the dimension with one-dimensional compactness only, no choice axiom); the regularised form is coercive,
   so its feasible sublevel set lies in a box.  With C03_min_unique: exactly one minimiser, on BOTH sides of the norm_eps
   branch.  The QP oracle's contract `is_min ... (qp M u)` of the theorems above is therefore satisfiable for every input ---- *)
From TJ.proofs Require Import QPMinExists.
Theorem C03_minimiser_exists_and_is_unique : forall n J s ne re u, wfmat n J ->
  (nltb RN s ne = false -> (0 < s)%R) -> (0 < re)%R -> length u = length J ->
  exists w, is_min (length J) (reg_norm_gramian RN (gramR J) s ne re) u w /\
    forall w', is_min (length J) (reg_norm_gramian RN (gramR J) s ne re) u w' -> w' = w.
Proof. exact qp_min_exists_unique. Qed.
Print Assumptions C03_minimiser_exists_and_is_unique.
Theorem C03_lipschitz_functions_attain_their_minimum_on_boxes : forall m (lo hi : list R) (f : list R -> R) (L : R),
  length lo = m -> length hi = m -> Forall2 Rle lo hi -> (0 <= L)%R ->
  (forall v v', inbox lo hi v -> inbox lo hi v' -> (f v - f v' <= L * l1 (vsubR v v'))%R) ->
  exists w, inbox lo hi w /\ forall v, inbox lo hi v -> (f w <= f v)%R.
Proof. exact box_min_exists. Qed.
Print Assumptions C03_lipschitz_functions_attain_their_minimum_on_boxes.
