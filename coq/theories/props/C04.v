(* C04 — non-conflicting aggregators never oppose any objective.  Obligations only. *)
From Coq Require Import Reals List Bool Arith.
From TJ Require Import Num Linalg NumR Agg.
From TJ.proofs Require Import LinalgR QPProofs C03Proofs.
Import ListNotations.
Local Open Scope R_scope.

(* at a minimiser of v^T M v over v >= u, (M w)_i >= 0 for every i with M_ii > 0 *)
Theorem C04_qp_sign : forall m M u w i, length M = m -> symm m M -> is_min m M u w ->
  (i < m)%nat -> 0 < qf M (onehotR m i 1) -> 0 <= nth i (mvR M w) 0.
Proof. exact min_sign. Qed.
Print Assumptions C04_qp_sign.

(* DualProj: (J . A(J))_i >= - reg_eps * s^2 * w_i  for every row i *)
Theorem C04_dualproj : forall n J s ne re pref qp,
  wfmat n J -> 0 < s -> nltb RN s ne = false -> 0 < re -> pref_ok pref (length J) ->
  let m := length J in let u := pref_u pref m in
  let M := reg_norm_gramian RN (gramR J) s ne re in
  is_min m M u (qp M u) ->
  agg_dualproj RN qp pref s ne re J = Ok (combineR J (qp M u)) /\
  forall i, (i < m)%nat ->
    - re * (s * s) * nth i (qp M u) 0 <= nth i (mvR J (combineR J (qp M u))) 0.
Proof.
  intros n J s ne re pref qp HJ Hs Hne Hre Hp m u M Hq. split.
  - apply (dualproj_spec n); assumption.
  - intros i Hi. apply (dualproj_nonconflicting n); assumption.
Qed.
Print Assumptions C04_dualproj.

(* UPGrad: same allowance with w the summed weights *)
Theorem C04_upgrad : forall n J s ne re pref qp,
  wfmat n J -> 0 < s -> nltb RN s ne = false -> 0 < re -> pref_ok pref (length J) ->
  let m := length J in let u := pref_u pref m in
  let M := reg_norm_gramian RN (gramR J) s ne re in
  let ui := fun i => onehotR m i (vget RN u i) in
  (forall i, (i < m)%nat -> is_min m M (ui i) (qp M (ui i))) ->
  let w := vsum_rows RN m (map (fun i => qp M (ui i)) (seq 0 m)) in
  agg_upgrad RN qp pref s ne re J = Ok (combineR J w) /\
  forall i, (i < m)%nat -> - re * (s * s) * nth i w 0 <= nth i (mvR J (combineR J w)) 0.
Proof.
  intros n J s ne re pref qp HJ Hs Hne Hre Hp m u M ui Hq w. split.
  - apply (upgrad_spec n); assumption.
  - intros i Hi. apply (upgrad_nonconflicting n); assumption.
Qed.
Print Assumptions C04_upgrad.

(* ---- MGDA (added): the allowance of the statement, for EVERY iteration budget and epsilon ---- *)
From TJ.proofs Require Import C18Proofs MgdaProofs.
(* x = MGDA's output, xstar a minimum-norm point of the convex hull of the rows, s any bound on the
   row norms (sigma_max in particular): every objective satisfies
   (J.A(J))_i >= - s * sqrt(|A(J)|^2 - |xstar|^2), the sub-optimality after the iterations done *)
Theorem C04_mgda_allowance : forall n J eps iters wstar s i, wfmat n J -> hull_min n J wstar ->
  0 <= s -> (forall g, In g J -> dotR g g <= s * s) -> (i < length J)%nat ->
  let x := agg_mgda RN eps iters J in
  let xstar := vmR n wstar J in
  - s * sqrt (dotR x x - dotR xstar xstar) <= nth i (mvR J x) 0.
Proof. exact mgda_allowance_mv. Qed.
Print Assumptions C04_mgda_allowance.
(* the exact minimum-norm point opposes no objective at all *)
Theorem C04_min_norm_point_nonconflicting : forall n J wstar i, wfmat n J -> hull_min n J wstar ->
  (i < length J)%nat ->
  dotR (vmR n wstar J) (vmR n wstar J) <= dotR (nth i J []) (vmR n wstar J).
Proof. exact hull_min_nonconflicting. Qed.
Print Assumptions C04_min_norm_point_nonconflicting.

(* ---- CAGrad with c >= 1 (added): from optimality of the conic program's answer (the solver
   contract; first-order conditions are DERIVED from it), no objective is opposed ---- *)
From TJ.proofs Require Import PublishedProofs.
Theorem C04_cagrad : forall n J s ne c w_opt,
  wfmat n J -> J <> [] -> 0 < s -> nltb RN s ne = false -> 0 < ne -> 1 <= c ->
  let Gn := normalized_gramian RN (gramR J) s ne in
  nleb RN ne (sqrt (quadform RN Gn w_opt)) = true ->
  cagrad_opt Gn c w_opt ->
  forall i, (i < length J)%nat -> 0 <= nth i (mvR J (agg_cagrad RN s ne c w_opt J)) 0.
Proof. exact cagrad_c_ge_1_nonconflicting_opt. Qed.
Print Assumptions C04_cagrad.
Theorem C04_cagrad_below_threshold : forall n J s ne c w_opt, wfmat n J -> J <> [] ->
  nleb RN ne (sqrt (quadform RN (normalized_gramian RN (gramR J) s ne) w_opt)) = false ->
  forall i, nth i (mvR J (agg_cagrad RN s ne c w_opt J)) 0 = 0.
Proof. exact cagrad_below_threshold_nonconflicting. Qed.
Print Assumptions C04_cagrad_below_threshold.
(* MGDA on two rows: exactly non-conflicting after one step *)
Theorem C04_mgda_two_rows : forall n g1 g2 eps iters, length g1 = n -> length g2 = n ->
  (1 <= iters)%nat ->
  let x := agg_mgda RN eps iters [g1; g2] in
  0 <= dotR g1 x /\ 0 <= dotR g2 x.
Proof. exact mgda_two_rows_nonconflicting. Qed.
Print Assumptions C04_mgda_two_rows.

(* ---- MGDA's sub-optimality bound (added): with epsilon = 0 the K Frank-Wolfe iterations with exact
   line search started at the mean leave |A(J)|^2 - min-norm^2 <= 8 s^2 / (K + 2), s any upper
   bound of the largest singular value (|J^T v| <= s |v|); with C04_mgda_allowance this closes the
   statement's "whose sub-optimality itself is at most 8 s^2 / (max_iters + 2)" for EVERY K ---- *)
From TJ.proofs Require Import MgdaRateProofs.
Theorem C04_mgda_rate : forall n J K wstar s, wfmat n J -> hull_min n J wstar -> 0 <= s ->
  (forall v, length v = length J -> dotR (vmR n v J) (vmR n v J) <= s * s * dotR v v) ->
  let x := agg_mgda RN 0 K J in
  let xstar := vmR n wstar J in
  dotR x x - dotR xstar xstar <= 8 * (s * s) / (INR K + 2).
Proof. exact mgda_fw_rate. Qed.
Print Assumptions C04_mgda_rate.

(* ---- the minimum-norm point of the hull EXISTS (added): induction on the number of rows with one-dimensional
   compactness only (the inner minimum value is a Lipschitz function of the mixing parameter), no choice axiom.
   With it the hypothesis `hull_min n J wstar` of the MGDA theorems above is discharged ---- *)
From TJ.proofs Require Import HullMinExists.
Theorem C04_min_norm_point_exists : forall n J, wfmat n J -> J <> [] -> exists wstar, hull_min n J wstar.
Proof. exact hull_min_exists. Qed.
Print Assumptions C04_min_norm_point_exists.
Theorem C04_mgda_rate_unconditional : forall n J K s, wfmat n J -> J <> [] -> 0 <= s ->
  (forall v, length v = length J -> dotR (vmR n v J) (vmR n v J) <= s * s * dotR v v) ->
  exists wstar, hull_min n J wstar /\
    let x := agg_mgda RN 0 K J in
    let xstar := vmR n wstar J in
    dotR x x - dotR xstar xstar <= 8 * (s * s) / (INR K + 2).
Proof. exact mgda_fw_rate_unconditional. Qed.
Print Assumptions C04_mgda_rate_unconditional.
Theorem C04_mgda_allowance_unconditional : forall n J eps iters s, wfmat n J -> J <> [] ->
  0 <= s -> (forall g, In g J -> dotR g g <= s * s) ->
  exists wstar, hull_min n J wstar /\
    forall i, (i < length J)%nat ->
    let x := agg_mgda RN eps iters J in
    let xstar := vmR n wstar J in
    - s * sqrt (dotR x x - dotR xstar xstar) <= dotR (nth i J []) x.
Proof. exact mgda_allowance_unconditional. Qed.
Print Assumptions C04_mgda_allowance_unconditional.

(* ---- CAGrad (added): the conic program HAS an optimum (an l1-Lipschitz function attains its minimum on the simplex;
   same one-dimensional compactness argument, no choice axiom), and for c >= 1 every optimum gives an update that opposes
   no objective, whether or not it passes the norm_eps test (below it the update is the zero vector) ---- *)
From TJ.proofs Require Import SimplexMinExists.
Theorem C04_cagrad_program_has_an_optimum : forall n J s ne c, wfmat n J -> J <> [] -> 0 < s ->
  nltb RN s ne = false -> 0 <= c ->
  exists w_opt, cagrad_opt (normalized_gramian RN (gramR J) s ne) c w_opt.
Proof. exact cagrad_opt_exists. Qed.
Print Assumptions C04_cagrad_program_has_an_optimum.
Theorem C04_cagrad_unconditional : forall n J s ne c,
  wfmat n J -> J <> [] -> 0 < s -> nltb RN s ne = false -> 0 < ne -> 1 <= c ->
  let Gn := normalized_gramian RN (gramR J) s ne in
  exists w_opt, cagrad_opt Gn c w_opt /\
    forall w, cagrad_opt Gn c w ->
      forall i, (i < length J)%nat -> 0 <= nth i (mvR J (agg_cagrad RN s ne c w J)) 0.
Proof. exact cagrad_c_ge_1_exists_nonconflicting_all. Qed.
Print Assumptions C04_cagrad_unconditional.
