(* C05 — with linear aggregators, Jacobian descent coincides with PyTorch autograd.
   Obligations only.  Instance: real numbers.  The reference is the model's specification of
   torch.autograd (ag_value: the vector-Jacobian product w.r.t. the total derivative, None when
   unreachable); `materialize` reads None as zeros, which is the one observable difference
   (torchjd deposits zeros into an explicitly requested unreachable input, torch leaves it). *)
From Coq Require Import Reals List Bool Arith Permutation.
From TJ Require Import Num Linalg NumR Chunk Agg Autojac.
From TJ.proofs Require Import LinalgR AutojacBasics AutojacSpec C01Proofs C05Proofs.
Import ListNotations.
Local Open Scope R_scope.

(* the slice of w.J that belongs to input i is the VJP with w as cotangents, split per tensor *)
Theorem C05_weighted_slice : forall (P : prog R) tensors ord w i,
  wf_prog P -> NoDup ord -> In i ord -> (1 <= total P tensors)%nat ->
  length w = total P tensors ->
  slice_of P ord (combine_rows RN (jacobian P tensors ord) w) i
  = vjp RN P tensors (split_by (map (pnumel P) tensors) w) i.
Proof. exact weighted_slice. Qed.
Print Assumptions C05_weighted_slice.

(* backward(tensors, Constant(w)) adds to every input what torch.autograd.backward(tensors,
   grad_tensors = w split per tensor) would: for all weights (negative and zero included), chunk
   sizes, input subsets *)
Theorem C05_constant : forall (P : prog R) w tensors ord k retain s d' s',
  wf_prog P -> ord <> [] -> (1 <= total P tensors)%nat ->
  backward_model RN P (agg_constant RN w) tensors ord k retain s = (Ok d', s') ->
  length w = total P tensors /\
  forall i, In i ord ->
    grad_val s' i = Some (acc_val (grad_val s i)
      (plain (p_shape P i)
         (materialize RN P i (ag_value RN P tensors (split_by (map (pnumel P) tensors) w) i)))).
Proof. exact constant_deposit. Qed.
Print Assumptions C05_constant.

(* Sum(): the gradient of the sum of all output scalars *)
Theorem C05_sum : forall (P : prog R) tensors ord k retain s d' s',
  wf_prog P -> ord <> [] -> (1 <= total P tensors)%nat ->
  backward_model RN P (fun J => Ok (agg_sum RN J)) tensors ord k retain s = (Ok d', s') ->
  forall i, In i ord ->
    grad_val s' i = Some (acc_val (grad_val s i)
      (plain (p_shape P i)
         (materialize RN P i (ag_value RN P tensors
            (split_by (map (pnumel P) tensors) (repeat 1 (total P tensors))) i)))).
Proof. exact sum_deposit. Qed.
Print Assumptions C05_sum.

(* Mean(): the gradient of their mean *)
Theorem C05_mean : forall (P : prog R) tensors ord k retain s d' s',
  wf_prog P -> ord <> [] -> (1 <= total P tensors)%nat ->
  backward_model RN P (fun J => Ok (agg_mean RN J)) tensors ord k retain s = (Ok d', s') ->
  forall i, In i ord ->
    grad_val s' i = Some (acc_val (grad_val s i)
      (plain (p_shape P i)
         (materialize RN P i (ag_value RN P tensors
            (split_by (map (pnumel P) tensors)
                      (repeat (1 / INR (total P tensors)) (total P tensors))) i)))).
Proof. exact mean_deposit. Qed.
Print Assumptions C05_mean.

(* the shared parameters in mtl_backward with fixed weights: the weighted sum of the per-task
   gradients pulled back through the features *)
Theorem C05_mtl_shared : forall (P : prog R) features shared losses w p,
  wf_prog P -> NoDup shared -> In p shared -> losses <> [] -> length w = length losses ->
  (forall l f, In l losses -> In f features -> length (grad_of P l f) = pnumel P f) ->
  slice_of P shared (combine_rows RN (mtl_matrix P features shared losses) w) p
  = fold_right (fun wl acc =>
                  vaddR (vscaleR (fst wl) (vjp RN P features (map (grad_of P (snd wl)) features) p)) acc)
               (vzeroR (pnumel P p)) (combine w losses).
Proof. exact mtl_weighted_slice. Qed.
Print Assumptions C05_mtl_shared.

(* (shared with C01) the enumeration order of the inputs is irrelevant for every weighting that is a
   function of the Gramian — which does not depend on the order *)
Theorem C05_gram_order_free : forall (P : prog R) outs ord1 ord2,
  wf_prog P -> Permutation ord1 ord2 ->
  gram RN (jacobian P outs ord1) = gram RN (jacobian P outs ord2).
Proof. exact gram_jacobian_perm. Qed.
Print Assumptions C05_gram_order_free.
Theorem C05_input_order_irrelevant : forall (P : prog R) (omega : list (list R) -> list R) tensors ord1 ord2 i,
  wf_prog P -> NoDup ord1 -> Permutation ord1 ord2 -> In i ord1 -> (1 <= total P tensors)%nat ->
  length (omega (gram RN (jacobian P tensors ord1))) = total P tensors ->
  slice_of P ord1 (combine_rows RN (jacobian P tensors ord1) (omega (gram RN (jacobian P tensors ord1)))) i
  = slice_of P ord2 (combine_rows RN (jacobian P tensors ord2) (omega (gram RN (jacobian P tensors ord2)))) i.
Proof. exact weighted_order_irrelevant. Qed.
Print Assumptions C05_input_order_irrelevant.

(* ---- mtl_backward's shared parameters with Constant(w) (added): under the cut hypothesis they
   receive what torch.autograd.backward(losses, grad_tensors = w) computes ---- *)
From TJ.proofs Require Import EntrySpec C20Proofs C02Proofs C15Proofs EndToEndProofs.
Theorem C05_mtl_constant : forall (P : prog R) w losses features tasks shared k retain s d' s',
  wf_prog P -> shared <> [] ->
  (forall l p, In l losses -> In p shared -> is_cut P [l] features p) ->
  mtl_backward_model RN P (agg_constant RN w) losses features tasks shared k retain s = (Ok d', s') ->
  length w = total P losses /\
  forall p, In p shared ->
    grad_val s' p = Some (acc_val (grad_val s p)
      (plain (p_shape P p)
         (materialize RN P p (ag_value RN P losses (split_by (map (pnumel P) losses) w) p)))).
Proof. exact mtl_constant_deposit. Qed.
Print Assumptions C05_mtl_constant.
