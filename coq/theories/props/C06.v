(* C06 — gradients accumulate; nothing but the requested .grad fields is touched.
   Obligations only.  Tensor VALUES are not part of the model's store at all (no transform can
   write them: a by-construction fact, observed on the implementation by the correspondence
   check); the .grad fields, their storage identity and the allocation counter are. *)
From Coq Require Import Reals List Bool Arith.
From TJ Require Import Num Linalg NumR Chunk Autojac Traverse History.
From TJ.proofs Require Import LinalgR AutojacBasics AutojacSpec EntrySpec C20Proofs C01Proofs C06Proofs C06HistProofs.
Import ListNotations.

Section C06.
Context {T : Type} (N : Num T) (P : prog T) (A : list (list T) -> res (list T)).

(* FRAME: only the keys handed to Accumulate can change — for any pipeline, successful or not *)
Theorem C06_frame : forall t s d r s' k,
  ~ In k (acc_keys t) -> run N P A t s d = (r, s') -> sget s' k = sget s k.
Proof. exact (run_frame N P A). Qed.
Theorem C06_backward_frame : forall tensors ord k retain s r s' t,
  ~ In t ord -> backward_model N P A tensors ord k retain s = (r, s') -> sget s' t = sget s t.
Proof. exact (backward_frame N P A). Qed.
Theorem C06_mtl_frame : forall losses features tasks shared k retain s r s' t,
  ~ In t (shared ++ concat tasks) ->
  mtl_backward_model N P A losses features tasks shared k retain s = (r, s') -> sget s' t = sget s t.
Proof. exact (mtl_frame N P A). Qed.

(* an existing .grad is added to IN PLACE (same storage), an absent one is created *)
Theorem C06_adds_in_place : forall s k v g,
  sget s k = Some g ->
  sget (accumulate_one N s (k, v)) k = Some (mkG (g_sid g) (tadd N (g_val g) v)).
Proof. exact (accumulate_one_adds N). Qed.
Theorem C06_creates_when_absent : forall s k v,
  sget s k = None -> sget (accumulate_one N s (k, v)) k = Some (mkG (s_next s) v).
Proof. exact (accumulate_one_creates N). Qed.

(* FRESH STORAGE: after ANY call every pre-existing .grad has kept its storage, and every .grad
   the call created has a storage that did not exist before and is shared with no other .grad *)
Theorem C06_fresh_storage : forall t s d r s',
  store_wf s -> run N P A t s d = (r, s') -> store_wf s' /\ extends s s'.
Proof. exact (run_extends N P A). Qed.
Theorem C06_backward_fresh_storage : forall tensors ord k retain s r s',
  store_wf s -> backward_model N P A tensors ord k retain s = (r, s') -> store_wf s' /\ extends s s'.
Proof. exact (backward_extends N P A). Qed.
Theorem C06_mtl_fresh_storage : forall losses features tasks shared k retain s r s',
  store_wf s -> mtl_backward_model N P A losses features tasks shared k retain s = (r, s') ->
  store_wf s' /\ extends s s'.
Proof. exact (mtl_extends N P A). Qed.
End C06.

(* n identical calls on a retained graph with a deterministic aggregator: the single-call update
   accumulated n times *)
Theorem C06_n_fold : forall (P : prog R) A n tensors ord k s s',
  wf_prog P -> ord <> [] -> (1 <= total P tensors)%nat ->
  repeat_backward P A n tensors ord k s = Some s' ->
  (forall i, In i ord -> grad_val s' i = acc_n n (grad_val s i) (update_of P A tensors ord i)) /\
  (forall t, ~ In t ord -> sget s' t = sget s t).
Proof. exact backward_n_fold. Qed.

(* REFINEMENT to the abstract accumulator, for every history of backward calls (accepted or
   rejected) interleaved with zeroing, setting to None and in-place edits of .grad *)
Theorem C06_refines_accumulator : forall (P : prog R) hs s,
  wf_prog P -> simple_history P hs ->
  forall t, grad_val (snd (hrun RN P s hs)) t = abs_run P (grad_val s) hs (fst (hrun RN P s hs)) t.
Proof. exact history_refines_accumulator. Qed.

Print Assumptions C06_frame.
Print Assumptions C06_backward_frame.
Print Assumptions C06_mtl_frame.
Print Assumptions C06_adds_in_place.
Print Assumptions C06_creates_when_absent.
Print Assumptions C06_fresh_storage.
Print Assumptions C06_backward_fresh_storage.
Print Assumptions C06_mtl_fresh_storage.
Print Assumptions C06_n_fold.
Print Assumptions C06_refines_accumulator.

(* ---- ALL history operations (added): backward, mtl_backward (accepted, or rejected for its
   arguments), bare engine runs, zero_(), = None, in-place edits ---- *)
From TJ.proofs Require Import C02Proofs C06FullHistProofs.
Theorem C06_refines_accumulator_full : forall (P : prog R) hs s,
  wf_prog P -> full_history_ok P s hs ->
  forall t, grad_val (snd (hrun RN P s hs)) t
            = abs_run_full P (grad_val s) hs (fst (hrun RN P s hs)) t.
Proof. exact full_history_refines_accumulator. Qed.
Print Assumptions C06_refines_accumulator_full.
(* n identical accepted mtl_backward calls on a retained graph: the single-call update n times *)
Theorem C06_mtl_n_fold : forall (P : prog R) A n losses features tasks shared k s s',
  wf_prog P -> repeat_mtl P A n losses features tasks shared k s = Some s' ->
  forall t, grad_val s' t = iter_update n (mtl_update P A losses features tasks shared) (grad_val s) t.
Proof. exact mtl_n_fold. Qed.
Print Assumptions C06_mtl_n_fold.
