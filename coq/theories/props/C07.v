(* C07 — parallel_chunk_size is a pure performance knob.  Obligations only. *)
From Coq Require Import List Bool Arith.
From TJ Require Import Chunk.
From TJ.proofs Require Import ChunkProofs.
Import ListNotations.

(* exactly ceil(m/k) sweeps *)
Theorem C07_sweep_count : forall m k retain, valid_chunk k = true -> 1 <= m ->
  length (chunk_plan m k retain) = ceil_div m (max_chunk m k).
Proof. exact plan_count. Qed.
Print Assumptions C07_sweep_count.

(* the sweeps are contiguous, in order, and cover rows 0..m-1 exactly once *)
Theorem C07_plan_covers : forall m k retain, valid_chunk k = true -> 1 <= m ->
  concat (map chunk_rows (chunk_plan m k retain)) = seq 0 m.
Proof. exact plan_rows_cover. Qed.
Print Assumptions C07_plan_covers.

(* each sweep has between 1 and k rows, stays inside [0,m), and is batched iff it has > 1 row *)
Theorem C07_sweep_sizes : forall m k retain c, valid_chunk k = true -> 1 <= m ->
  In c (chunk_plan m k retain) ->
  1 <= c_len c /\ c_len c <= max_chunk m k /\ c_start c + c_len c <= m /\
  c_batched c = negb (c_len c =? 1).
Proof. exact plan_sizes. Qed.
Print Assumptions C07_sweep_sizes.

(* the result of row-wise differentiation does not depend on the chunk size:
   for ANY per-row function f (the vector-Jacobian product of row r), any two valid chunk sizes
   and any retain flags give the same stacked rows, namely f 0 .. f (m-1). *)
Theorem C07_value_independent : forall (A : Type) (f : nat -> A) m k retain,
  valid_chunk k = true -> 1 <= m ->
  run_plan f (chunk_plan m k retain) = map f (seq 0 m).
Proof. exact @run_plan_rows. Qed.
Print Assumptions C07_value_independent.

(* chunk size 1: strictly sequential, never batched (no vmap) *)
Theorem C07_sequential_k1 : forall m retain c, 1 <= m ->
  In c (chunk_plan m (Some 1) retain) -> c_batched c = false /\ c_len c = 1.
Proof. exact plan_sequential_k1. Qed.
Print Assumptions C07_sequential_k1.

(* a single row: never batched, whatever the chunk size *)
Theorem C07_single_row : forall k retain c, valid_chunk k = true ->
  In c (chunk_plan 1 k retain) -> c_batched c = false.
Proof. exact plan_single_row. Qed.
Print Assumptions C07_single_row.

(* None, and any k >= m, mean one sweep of all m rows *)
Theorem C07_none_is_one_sweep : forall m retain, 1 <= m ->
  chunk_plan m None retain = [mkChunk 0 m (negb (m =? 1)) retain].
Proof. exact plan_none_single. Qed.
Print Assumptions C07_none_is_one_sweep.

Theorem C07_large_k_is_one_sweep : forall m k retain, 1 <= m -> m <= k ->
  chunk_plan m (Some k) retain = [mkChunk 0 m (negb (m =? 1)) retain].
Proof. exact plan_large_k. Qed.
Print Assumptions C07_large_k_is_one_sweep.

(* all sweeps but the last retain the graph; the last one uses the caller's flag (shared with C13) *)
Theorem C07_retain_flags : forall m k retain,
  exists front last, chunk_plan m k retain = front ++ [last] /\
    Forall (fun c => c_retain c = true) front /\ c_retain last = retain.
Proof. exact plan_retain_flags. Qed.
Print Assumptions C07_retain_flags.

(* non-vacuity: a concrete plan *)
Example C07_example : chunk_plan 7 (Some 3) false =
  [mkChunk 0 3 true true; mkChunk 3 3 true true; mkChunk 6 1 false false].
Proof. vm_compute. reflexivity. Qed.
