(* C07 — parallel_chunk_size is a pure performance knob.  Obligations only. *)
From Coq Require Import List Bool Arith.
From TJ Require Import Chunk.
From TJ.proofs Require Import ChunkProofs.
Import ListNotations.

(* exactly ceil(m/k) sweeps *)
Theorem C07_sweep_count : forall m k retain, valid_chunk k = true -> 1 <= m ->
  length (chunk_plan m k retain) = ceil_div m (max_chunk m k).
Proof. exact plan_count. Qed.
Print Assumptions C07_sweep_count.

(* the sweeps are contiguous, in order, and cover rows 0..m-1 exactly once *)
Theorem C07_plan_covers : forall m k retain, valid_chunk k = true -> 1 <= m ->
  concat (map chunk_rows (chunk_plan m k retain)) = seq 0 m.
Proof. exact plan_rows_cover. Qed.
Print Assumptions C07_plan_covers.

(* each sweep has between 1 and k rows, stays inside [0,m), and is batched iff it has > 1 row *)
Theorem C07_sweep_sizes : forall m k retain c, valid_chunk k = true -> 1 <= m ->
  In c (chunk_plan m k retain) ->
  1 <= c_len c /\ c_len c <= max_chunk m k /\ c_start c + c_len c <= m /\
  c_batched c = negb (c_len c =? 1).
Proof. exact plan_sizes. Qed.
Print Assumptions C07_sweep_sizes.

(* the result of row-wise differentiation does not depend on the chunk size:
   for ANY per-row function f (the vector-Jacobian product of row r), any two valid chunk sizes
   and any retain flags give the same stacked rows, namely f 0 .. f (m-1). *)
Theorem C07_value_independent : forall (A : Type) (f : nat -> A) m k retain,
  valid_chunk k = true -> 1 <= m ->
  run_plan f (chunk_plan m k retain) = map f (seq 0 m).
Proof. exact @run_plan_rows. Qed.
Print Assumptions C07_value_independent.

(* chunk size 1: strictly sequential, never batched (no vmap) *)
Theorem C07_sequential_k1 : forall m retain c, 1 <= m ->
  In c (chunk_plan m (Some 1) retain) -> c_batched c = false /\ c_len c = 1.
Proof. exact plan_sequential_k1. Qed.
Print Assumptions C07_sequential_k1.

(* a single row: never batched, whatever the chunk size *)
Theorem C07_single_row : forall k retain c, valid_chunk k = true ->
  In c (chunk_plan 1 k retain) -> c_batched c = false.
Proof. exact plan_single_row. Qed.
Print Assumptions C07_single_row.

(* None, and any k >= m, mean one sweep of all m rows *)
Theorem C07_none_is_one_sweep : forall m retain, 1 <= m ->
  chunk_plan m None retain = [mkChunk 0 m (negb (m =? 1)) retain].
Proof. exact plan_none_single. Qed.
Print Assumptions C07_none_is_one_sweep.

Theorem C07_large_k_is_one_sweep : forall m k retain, 1 <= m -> m <= k ->
  chunk_plan m (Some k) retain = [mkChunk 0 m (negb (m =? 1)) retain].
Proof. exact plan_large_k. Qed.
Print Assumptions C07_large_k_is_one_sweep.

(* all sweeps but the last retain the graph; the last one uses the caller's flag (shared with C13) *)
Theorem C07_retain_flags : forall m k retain,
  exists front last, chunk_plan m k retain = front ++ [last] /\
    Forall (fun c => c_retain c = true) front /\ c_retain last = retain.
Proof. exact plan_retain_flags. Qed.
Print Assumptions C07_retain_flags.

(* non-vacuity: a concrete plan *)
Example C07_example : chunk_plan 7 (Some 3) false =
  [mkChunk 0 3 true true; mkChunk 3 3 true true; mkChunk 6 1 false false].
Proof. vm_compute. reflexivity. Qed.

(* ---- the ENTRY POINTS (added): the engine runs an accepted backward / mtl_backward call issues are
   exactly the chunk plan of m = total number of output scalars (resp. number of losses) — hence
   exactly ceil(m/k) sweeps of 1..k rows covering m rows, never batched when k = 1 or m = 1 ---- *)
From TJ Require Import Num Linalg Autojac Traverse.
From TJ.proofs Require Import AutojacBasics EntrySpec C20Proofs C13Proofs SweepCountProofs.
Section C07entry.
Context {T : Type} (N : Num T) (P : prog T) (A : list (list T) -> res (list T)).
Theorem C07_backward_sweeps : forall tensors ord k retain s d' s',
  ord <> [] -> 1 <= total_rows P tensors ->
  backward_model N P A tensors ord k retain s = (Ok d', s') ->
  plan_log_spec tensors ord (total_rows P tensors) k (new_sweeps s s').
Proof. exact (backward_sweeps_spec N P A). Qed.
Theorem C07_backward_sequential : forall tensors ord k retain s d' s',
  ord <> [] -> 1 <= total_rows P tensors ->
  backward_model N P A tensors ord k retain s = (Ok d', s') ->
  k = Some 1 \/ total_rows P tensors = 1 ->
  forall w, In w (firstn (length (s_log s') - length (s_log s)) (s_log s')) -> sw_batched w = false.
Proof. exact (backward_sequential N P A). Qed.
Theorem C07_mtl_sweeps : forall losses features tasks shared k retain s d' s',
  shared <> [] ->
  mtl_backward_model N P A losses features tasks shared k retain s = (Ok d', s') ->
  exists trunk heads,
    s_log s' = trunk ++ heads ++ s_log s /\
    plan_log_spec features shared (length losses) k trunk /\
    heads = rev (map (task_sweep features retain) (combine tasks losses)) /\
    length heads = length losses /\
    (forall w, In w heads -> sw_rows w = 1 /\ sw_batched w = false /\ sw_retain w = retain).
Proof. exact (mtl_sweeps_spec N P A). Qed.
Theorem C07_mtl_sequential : forall losses features tasks shared k retain s d' s',
  shared <> [] ->
  mtl_backward_model N P A losses features tasks shared k retain s = (Ok d', s') ->
  k = Some 1 \/ length losses = 1 ->
  forall w, In w (firstn (length (s_log s') - length (s_log s)) (s_log s')) -> sw_batched w = false.
Proof. exact (mtl_sequential N P A). Qed.
End C07entry.
Print Assumptions C07_backward_sweeps.
Print Assumptions C07_backward_sequential.
Print Assumptions C07_mtl_sweeps.
Print Assumptions C07_mtl_sequential.
