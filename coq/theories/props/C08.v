(* C08 — weighted aggregators stay in the row span and only look at the Gramian. *)
From Coq Require Import Reals List Bool Arith Lia.
From TJ Require Import Num Linalg NumR Agg.
From TJ.proofs Require Import LinalgR C08Proofs.
Import ListNotations.
Local Open Scope R_scope.

(* Q has n rows of length p, orthonormal (Q Q^T = I_n): orthogonal matrices (p = n), column
   permutations, and insertions of all-zero columns (Q = [I | 0] up to permutation, p > n). *)
Theorem C08_gram_invariant : forall n p J Q, orth n p Q -> wfmat n J ->
  gramR (mmul RN p J Q) = gramR J.
Proof. exact gram_mmul. Qed.
Print Assumptions C08_gram_invariant.

(* meta-theorem: ANY weighting that is a function of the Gramian commutes with Q *)
Theorem C08_orthogonal_meta : forall n p J Q (Omega : list (list R) -> res (list R)),
  orth n p Q -> wfmat n J -> J <> [] ->
  weighted RN (mmul RN p J Q) (Omega (gramR (mmul RN p J Q))) =
  res_map (fun v => vmR p v Q) (weighted RN J (Omega (gramR J))).
Proof. exact orthogonal_meta_res. Qed.
Print Assumptions C08_orthogonal_meta.

(* every weighted model IS of that form (same oracle answers / same draws on both sides:
   they are functions of the Gramian, resp. independent of the columns) *)
Theorem C08_gramian_form : forall J,
  (Ok (agg_mean RN J) = weighted RN J (Om_mean (gramR J))) /\
  (Ok (agg_sum RN J) = weighted RN J (Om_sum (gramR J))) /\
  (forall w, agg_constant RN w J = weighted RN J (Om_constant w (gramR J))) /\
  (forall e, Ok (agg_random RN e J) = weighted RN J (Om_random e (gramR J))) /\
  (forall qp pref s ne re,
     agg_dualproj RN qp pref s ne re J = weighted RN J (Om_dualproj qp pref s ne re (gramR J))) /\
  (forall qp pref s ne re,
     agg_upgrad RN qp pref s ne re J = weighted RN J (Om_upgrad qp pref s ne re (gramR J))) /\
  (forall eps iters, Ok (agg_mgda RN eps iters J) = weighted RN J (Om_mgda eps iters (gramR J))) /\
  (forall perms, Ok (agg_pcgrad RN perms J) = weighted RN J (Om_pcgrad perms (gramR J))) /\
  (forall f k, agg_krum RN f k J = weighted RN J (Om_krum f k (gramR J))) /\
  (forall P thr, Ok (agg_imtlg RN P thr J) = weighted RN J (Om_imtlg P thr (gramR J))) /\
  (forall s ne c w_opt,
     Ok (agg_cagrad RN s ne c w_opt J) = weighted RN J (Om_cagrad s ne c w_opt (gramR J))) /\
  (forall lam Vt tol pref,
     agg_aligned RN lam Vt tol pref J = weighted RN J (Om_aligned lam Vt tol pref (gramR J))).
Proof.
  intros J. repeat match goal with |- _ /\ _ => split end; intros.
  - apply gf_mean. - apply gf_sum. - apply gf_constant. - apply gf_random.
  - apply gf_dualproj. - apply gf_upgrad. - apply gf_mgda. - apply gf_pcgrad.
  - apply gf_krum. - apply gf_imtlg. - apply gf_cagrad. - apply gf_aligned.
Qed.
Print Assumptions C08_gramian_form.

(* spelled-out instances: A(J Q) = A(J) Q *)
Theorem C08_orthogonal_instances : forall n p J Q, orth n p Q -> wfmat n J -> J <> [] ->
  agg_mean RN (mmul RN p J Q) = vmR p (agg_mean RN J) Q /\
  agg_sum RN (mmul RN p J Q) = vmR p (agg_sum RN J) Q /\
  (forall w, agg_constant RN w (mmul RN p J Q) = res_map (fun v => vmR p v Q) (agg_constant RN w J)) /\
  (forall qp pref s ne re, agg_upgrad RN qp pref s ne re (mmul RN p J Q) =
      res_map (fun v => vmR p v Q) (agg_upgrad RN qp pref s ne re J)) /\
  (forall qp pref s ne re, agg_dualproj RN qp pref s ne re (mmul RN p J Q) =
      res_map (fun v => vmR p v Q) (agg_dualproj RN qp pref s ne re J)) /\
  (forall eps iters, agg_mgda RN eps iters (mmul RN p J Q) = vmR p (agg_mgda RN eps iters J) Q) /\
  (forall perms, agg_pcgrad RN perms (mmul RN p J Q) = vmR p (agg_pcgrad RN perms J) Q) /\
  (forall f k, agg_krum RN f k (mmul RN p J Q) = res_map (fun v => vmR p v Q) (agg_krum RN f k J)) /\
  (forall P thr, agg_imtlg RN P thr (mmul RN p J Q) = vmR p (agg_imtlg RN P thr J) Q) /\
  (forall s ne c w_opt, agg_cagrad RN s ne c w_opt (mmul RN p J Q) =
      vmR p (agg_cagrad RN s ne c w_opt J) Q) /\
  (forall lam Vt tol pref, agg_aligned RN lam Vt tol pref (mmul RN p J Q) =
      res_map (fun v => vmR p v Q) (agg_aligned RN lam Vt tol pref J)) /\
  (forall e, agg_random RN e (mmul RN p J Q) = vmR p (agg_random RN e J) Q).
Proof.
  intros n p J Q Ho HJ Hne.
  assert (OkInj : forall a b : list R, Ok a = Ok b -> a = b) by (intros a b H; injection H; auto).
  repeat match goal with |- _ /\ _ => split end; intros.
  - apply OkInj. rewrite gf_mean. rewrite (orthogonal_meta_res n p J Q Om_mean) by assumption.
    rewrite <- gf_mean. reflexivity.
  - apply OkInj. rewrite gf_sum. rewrite (orthogonal_meta_res n p J Q Om_sum) by assumption.
    rewrite <- gf_sum. reflexivity.
  - rewrite !gf_constant. apply (orthogonal_meta_res n p J Q (Om_constant w)); assumption.
  - rewrite !gf_upgrad. apply (orthogonal_meta_res n p J Q (Om_upgrad qp pref s ne re)); assumption.
  - rewrite !gf_dualproj. apply (orthogonal_meta_res n p J Q (Om_dualproj qp pref s ne re)); assumption.
  - apply OkInj. rewrite gf_mgda. rewrite (orthogonal_meta_res n p J Q (Om_mgda eps iters)) by assumption.
    rewrite <- gf_mgda. reflexivity.
  - apply OkInj. rewrite gf_pcgrad. rewrite (orthogonal_meta_res n p J Q (Om_pcgrad perms)) by assumption.
    rewrite <- gf_pcgrad. reflexivity.
  - rewrite !gf_krum. apply (orthogonal_meta_res n p J Q (Om_krum f k)); assumption.
  - apply OkInj. rewrite gf_imtlg. rewrite (orthogonal_meta_res n p J Q (Om_imtlg P thr)) by assumption.
    rewrite <- gf_imtlg. reflexivity.
  - apply OkInj. rewrite gf_cagrad. rewrite (orthogonal_meta_res n p J Q (Om_cagrad s ne c w_opt)) by assumption.
    rewrite <- gf_cagrad. reflexivity.
  - rewrite !gf_aligned. apply (orthogonal_meta_res n p J Q (Om_aligned lam Vt tol pref)); assumption.
  - apply OkInj. rewrite gf_random. rewrite (orthogonal_meta_res n p J Q (Om_random e)) by assumption.
    rewrite <- gf_random. reflexivity.
Qed.
Print Assumptions C08_orthogonal_instances.

(* row span *)
Theorem C08_span : forall J (r : res (list R)) v,
  weighted RN J r = Ok v -> exists w, v = combineR J w.
Proof. exact weighted_in_span. Qed.
Print Assumptions C08_span.

(* TrimmedMean is column-local: coordinate j is a function of column j alone, and an all-zero
   column yields 0 *)
Theorem C08_trimmed_mean_columns : forall b J, (2 * b + 1 <= length J)%nat ->
  agg_trimmed_mean RN b J = Ok (map (fun j => trimmed RN b (column RN J j)) (seq 0 (ncols J))) /\
  trimmed RN b (repeat 0 (length J)) = 0.
Proof.
  intros b J H. split.
  - unfold agg_trimmed_mean. destruct (Nat.ltb_spec (length J) (1 + 2 * b)); [lia|reflexivity].
  - apply trimmed_zero_column. exact H.
Qed.
Print Assumptions C08_trimmed_mean_columns.

(* ---- ConFIG (added): A(J Q) = A(J) Q for every Q with orthonormal rows, with the pseudo-inverse
   oracle of the rotated unit rows Q^T B; the unit rows commute with Q and the contract U B = I
   transfers ---- *)
From TJ.proofs Require Import QPProofs C03Proofs C18Proofs C16Proofs C11Proofs C10Proofs EquivarianceProofs ConfigProofs.
Theorem C08_config : forall n p m J Q B pref,
  orth n p Q -> wfmat n J -> wfmat m B -> length B = n ->
  let B' := config_pinv_Q p m Q B in
  length B' = p /\ wfmat m B' /\
  config_units RN (mmul RN p J Q) = mmul RN p (config_units RN J) Q /\
  ((forall x, length x = m -> mvR (config_units RN J) (mvR B x) = x) ->
   (forall x, length x = m -> mvR (config_units RN (mmul RN p J Q)) (mvR B' x) = x)) /\
  agg_config RN B' pref (mmul RN p J Q) = res_map (fun v => vmR p v Q) (agg_config RN B pref J).
Proof. exact config_orthogonal. Qed.
Print Assumptions C08_config.

(* ---- GradDrop (added): column-local.  Coordinate j is a function of column j, the leak vector and
   the draw u_j alone, and an all-zero column yields 0 whatever the draw: permuting the columns
   together with their draws permutes the output, appended zero columns append zeros ---- *)
From TJ.proofs Require Import GradDropPermProofs.
Theorem C08_graddrop_columns : forall leak U J, length leak = length J ->
  agg_graddrop RN (Some leak) U J
  = Ok (map (fun '(j, u) => graddrop_coord RN leak (column RN J j) u)
            (List.combine (seq 0 (ncols J)) U)).
Proof. exact graddrop_column_local. Qed.
Print Assumptions C08_graddrop_columns.
Theorem C08_graddrop_zero_column : forall leak m u, length leak = m ->
  graddrop_coord RN leak (repeat 0 m) u = 0.
Proof. exact graddrop_zero_column. Qed.
Print Assumptions C08_graddrop_zero_column.
