(* C09 — linear under scaling.  PARTIAL: the fixed-weight family is proved; PCGrad, ConFIG and
   UPGrad's regularisation defect are checked by the direct oracle only (see DESIGN.md). *)
From Coq Require Import Reals List Bool Arith.
From TJ Require Import Num Linalg NumR Agg.
From TJ.proofs Require Import LinalgR C10Proofs.
Import ListNotations.
Local Open Scope R_scope.

(* diag(c) J with ANY fixed weight vector w (Mean: 1/m, Sum: 1, Constant: its weights, Random: the
   softmax of the fixed draw):  A(diag(a c1 + b c2) J) = a A(diag(c1) J) + b A(diag(c2) J),
   for all c1, c2, a, b (not only positive ones) *)
Theorem C09_fixed_weights : forall n J w a c1 b c2, wfmat n J -> J <> [] ->
  length w = length J -> length c1 = length J -> length c2 = length J ->
  combineR (scale_rows (vaddR (vscaleR a c1) (vscaleR b c2)) J) w =
  vaddR (vscaleR a (combineR (scale_rows c1 J) w)) (vscaleR b (combineR (scale_rows c2 J) w)).
Proof. exact fixed_weights_linear. Qed.
Print Assumptions C09_fixed_weights.

(* the weights of Mean / Sum / Constant / Random do not depend on the matrix entries *)
Theorem C09_weights_are_fixed : forall (J J' : list (list R)) w e, length J = length J' ->
  agg_mean RN J = combineR J (mean_weights RN (length J')) /\
  agg_sum RN J = combineR J (sum_weights RN (length J')) /\
  (length w = length J -> agg_constant RN w J = Ok (combineR J w)) /\
  agg_random RN e J = combineR J (random_weights RN e).
Proof.
  intros J J' w e H. unfold agg_mean, agg_sum, agg_random, agg_constant, weighted, constant_weights.
  rewrite <- H. repeat split. intros Hw. rewrite Hw, Nat.eqb_refl. reflexivity.
Qed.
Print Assumptions C09_weights_are_fixed.
