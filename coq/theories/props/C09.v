(* C09 — linear under scaling.  Fixed-weight family, PCGrad (every schedule), ConFIG, UPGrad without
   regularisation (exact) and with it (defect <= const * sqrt(reg_eps), vanishing).  Obligations only. *)
From Coq Require Import Reals List Bool Arith.
From TJ Require Import Num Linalg NumR Agg.
From TJ.proofs Require Import LinalgR C10Proofs.
Import ListNotations.
Local Open Scope R_scope.

(* diag(c) J with ANY fixed weight vector w (Mean: 1/m, Sum: 1, Constant: its weights, Random: the
   softmax of the fixed draw):  A(diag(a c1 + b c2) J) = a A(diag(c1) J) + b A(diag(c2) J),
   for all c1, c2, a, b (not only positive ones) *)
Theorem C09_fixed_weights : forall n J w a c1 b c2, wfmat n J -> J <> [] ->
  length w = length J -> length c1 = length J -> length c2 = length J ->
  combineR (scale_rows (vaddR (vscaleR a c1) (vscaleR b c2)) J) w =
  vaddR (vscaleR a (combineR (scale_rows c1 J) w)) (vscaleR b (combineR (scale_rows c2 J) w)).
Proof. exact fixed_weights_linear. Qed.
Print Assumptions C09_fixed_weights.

(* the weights of Mean / Sum / Constant / Random do not depend on the matrix entries *)
Theorem C09_weights_are_fixed : forall (J J' : list (list R)) w e, length J = length J' ->
  agg_mean RN J = combineR J (mean_weights RN (length J')) /\
  agg_sum RN J = combineR J (sum_weights RN (length J')) /\
  (length w = length J -> agg_constant RN w J = Ok (combineR J w)) /\
  agg_random RN e J = combineR J (random_weights RN e).
Proof.
  intros J J' w e H. unfold agg_mean, agg_sum, agg_random, agg_constant, weighted, constant_weights.
  rewrite <- H. repeat split. intros Hw. rewrite Hw, Nat.eqb_refl. reflexivity.
Qed.
Print Assumptions C09_weights_are_fixed.

(* ---- PCGrad and ConFIG (added): linear under positive row scaling ---- *)
From TJ.proofs Require Import QPProofs C18Proofs C16Proofs ScalingProofs.
(* PCGrad, for EVERY fixed schedule of projection orders: conflict tests are invariant under
   positive scaling of either row, the subtracted projection does not depend on the scale of the
   row projected on, and everything scales with the row's own factor *)
Theorem C09_pcgrad_projection_scales : forall J c i t, length c = length J -> allpos c -> 0 < t ->
  forall perm g, pc_vec (rscale c J) i perm (vscaleR t g) = vscaleR t (pc_vec J i perm g).
Proof. exact pc_vec_rscale. Qed.
Print Assumptions C09_pcgrad_projection_scales.
Theorem C09_pcgrad : forall n J perms a b c1 c2, wfmat n J -> J <> [] ->
  (length perms <= length J)%nat -> Forall (Forall (fun j => (j < length J)%nat)) perms ->
  length c1 = length J -> length c2 = length J ->
  allpos c1 -> allpos c2 -> allpos (vaddR (vscaleR a c1) (vscaleR b c2)) ->
  agg_pcgrad RN perms (rscale (vaddR (vscaleR a c1) (vscaleR b c2)) J) =
  vaddR (vscaleR a (agg_pcgrad RN perms (rscale c1 J))) (vscaleR b (agg_pcgrad RN perms (rscale c2 J))).
Proof. exact pcgrad_linear_under_scaling_gen. Qed.
Print Assumptions C09_pcgrad.
(* ConFIG: the unit rows (hence the pseudo-inverse oracle's argument, hence the direction) do not
   depend on positive row scales, and the length is linear in them *)
Theorem C09_config_units_scale_free : forall J c, length c = length J -> allpos c ->
  config_units RN (rscale c J) = config_units RN J.
Proof. exact config_units_rscale. Qed.
Print Assumptions C09_config_units_scale_free.
Theorem C09_config : forall B pref a b c1 c2 J w,
  length c1 = length J -> length c2 = length J ->
  pref_weights pref (sum_weights RN (length J)) (length J) = Ok w ->
  exists v1 v2, agg_config RN B pref (rscale c1 J) = Ok v1 /\ agg_config RN B pref (rscale c2 J) = Ok v2 /\
    agg_config RN B pref (rscale (vaddR (vscaleR a c1) (vscaleR b c2)) J) = Ok (vaddR (vscaleR a v1) (vscaleR b v2)).
Proof. exact config_linear_under_scaling. Qed.
Print Assumptions C09_config.

(* ---- UPGrad (added): WITHOUT regularisation the map c -> A(diag(c) J) is exactly linear on positive
   vectors — the idealisation behind "the defect vanishes as reg_eps -> 0".  For ANY QP oracle that
   returns minimisers on the four matrices involved (each with its own sigma_max) ---- *)
From TJ.proofs Require Import C03Proofs C08Proofs C11Proofs EquivarianceProofs MgdaProofs PublishedProofs ImpartialProofs SpectralProofs.
Theorem C09_upgrad_unregularised : forall n J qp pref s s1 s2 s12 ne a b c1 c2 u,
  wfmat n J -> J <> [] -> length c1 = length J -> length c2 = length J ->
  allpos c1 -> allpos c2 -> 0 < a -> 0 < b ->
  pref_weights pref (mean_weights RN (length J)) (length J) = Ok u ->
  let c12 := vaddR (vscaleR a c1) (vscaleR b c2) in
  qp_unreg_ok qp J s ne u -> qp_unreg_ok qp (rscale c1 J) s1 ne u ->
  qp_unreg_ok qp (rscale c2 J) s2 ne u -> qp_unreg_ok qp (rscale c12 J) s12 ne u ->
  exists x1 x2, agg_upgrad RN qp pref s1 ne 0 (rscale c1 J) = Ok x1 /\
    agg_upgrad RN qp pref s2 ne 0 (rscale c2 J) = Ok x2 /\
    agg_upgrad RN qp pref s12 ne 0 (rscale c12 J) = Ok (vaddR (vscaleR a x1) (vscaleR b x2)).
Proof. exact agg_upgrad_unreg_linear_under_scaling. Qed.
Print Assumptions C09_upgrad_unregularised.

(* ---- UPGrad WITH regularisation (added): the defect of the identity is at most
   sqrt(reg_eps)/2 * (s12 W12 + a s1 W1 + b s2 W2), where s. are the sigma_max of the three scaled
   matrices and W. = sum_i |w0_i| the summed norms of the UNREGULARISED one-hot minimisers (they do
   not depend on reg_eps): "bounded by a constant times sqrt(reg_eps) * s * |w|".  qp0 is any
   oracle that answers the unregularised problems (it fixes the constants), qp the oracle the model
   runs with at reg_eps = re ---- *)
From TJ.proofs Require Import RegBoundProofs.
Theorem C09_qp_regularisation_perturbs_by_sqrt : forall m G e u w0 we,
  length G = m -> wfmat m G -> symm m G -> 0 <= e ->
  is_min m G u w0 -> is_min m (regularize RN G e) u we ->
  qf G (vsubR we w0) <= e * dotR we (vsubR w0 we) /\
  e * dotR we (vsubR w0 we) <= e * (dotR w0 w0) / 4.
Proof. exact qp_reg_perturbation. Qed.
Print Assumptions C09_qp_regularisation_perturbs_by_sqrt.
Theorem C09_upgrad_defect_bound : forall n J qp0 qp pref s s1 s2 s12 ne re a b c1 c2 u,
  wfmat n J -> J <> [] -> length c1 = length J -> length c2 = length J ->
  allpos c1 -> allpos c2 -> 0 < a -> 0 < b -> 0 <= re ->
  pref_weights pref (mean_weights RN (length J)) (length J) = Ok u ->
  let c12 := vaddR (vscaleR a c1) (vscaleR b c2) in
  qp_unreg_ok qp0 J s ne u ->
  qp_unreg_ok qp0 (rscale c1 J) s1 ne u -> qp_unreg_ok qp0 (rscale c2 J) s2 ne u ->
  qp_unreg_ok qp0 (rscale c12 J) s12 ne u ->
  qp_reg_ok qp (rscale c1 J) s1 ne re u -> qp_reg_ok qp (rscale c2 J) s2 ne re u ->
  qp_reg_ok qp (rscale c12 J) s12 ne re u ->
  exists y1 y2 y12,
    agg_upgrad RN qp pref s1 ne re (rscale c1 J) = Ok y1 /\
    agg_upgrad RN qp pref s2 ne re (rscale c2 J) = Ok y2 /\
    agg_upgrad RN qp pref s12 ne re (rscale c12 J) = Ok y12 /\
    nrm (vsubR y12 (vaddR (vscaleR a y1) (vscaleR b y2))) <=
    sqrt re / 2 * (s12 * upgrad_Wsum qp0 (rscale c12 J) s12 ne u
                   + a * (s1 * upgrad_Wsum qp0 (rscale c1 J) s1 ne u)
                   + b * (s2 * upgrad_Wsum qp0 (rscale c2 J) s2 ne u)).
Proof. exact upgrad_scaling_defect. Qed.
Print Assumptions C09_upgrad_defect_bound.
(* ... and it vanishes as reg_eps -> 0 (delta does not depend on the regularised oracle) *)
Theorem C09_upgrad_defect_vanishes : forall n J qp0 pref s s1 s2 s12 ne a b c1 c2 u,
  wfmat n J -> J <> [] -> length c1 = length J -> length c2 = length J ->
  allpos c1 -> allpos c2 -> 0 < a -> 0 < b ->
  pref_weights pref (mean_weights RN (length J)) (length J) = Ok u ->
  let c12 := vaddR (vscaleR a c1) (vscaleR b c2) in
  qp_unreg_ok qp0 J s ne u ->
  qp_unreg_ok qp0 (rscale c1 J) s1 ne u -> qp_unreg_ok qp0 (rscale c2 J) s2 ne u ->
  qp_unreg_ok qp0 (rscale c12 J) s12 ne u ->
  forall eps, 0 < eps ->
  exists delta, 0 < delta /\
    forall re qp, 0 <= re < delta ->
      qp_reg_ok qp (rscale c1 J) s1 ne re u -> qp_reg_ok qp (rscale c2 J) s2 ne re u ->
      qp_reg_ok qp (rscale c12 J) s12 ne re u ->
      exists y1 y2 y12,
        agg_upgrad RN qp pref s1 ne re (rscale c1 J) = Ok y1 /\
        agg_upgrad RN qp pref s2 ne re (rscale c2 J) = Ok y2 /\
        agg_upgrad RN qp pref s12 ne re (rscale c12 J) = Ok y12 /\
        nrm (vsubR y12 (vaddR (vscaleR a y1) (vscaleR b y2))) < eps.
Proof. exact upgrad_scaling_defect_vanishes. Qed.
Print Assumptions C09_upgrad_defect_vanishes.
(* the regularised oracle contract is satisfiable for every reg_eps >= 0 (no-conflict matrices) *)
Theorem C09_reg_contract_satisfiable : forall n J c s' ne re u, wfmat n J -> 0 < s' ->
  nltb RN s' ne = false -> 0 <= re -> allpos c ->
  (forall r r', In r J -> In r' J -> 0 <= dotR r r') -> nonneg u ->
  qp_reg_ok (fun _ x => x) (rscale c J) s' ne re u.
Proof. exact qp_reg_ok_no_conflict_rscale. Qed.
Print Assumptions C09_reg_contract_satisfiable.
