(* C10 — the order of the objectives does not matter.  PARTIAL: meta-theorem + Mean, Sum,
   any fixed weights permuted alongside (Constant), TrimmedMean; the QP / iterative / spectral
   aggregators are checked by exhaustive-permutation correspondence and oracle only. *)
From Coq Require Import Reals List Bool Arith Permutation.
From TJ Require Import Num Linalg NumR Agg.
From TJ.proofs Require Import LinalgR C10Proofs.
Import ListNotations.
Local Open Scope R_scope.

(* permuting the rows TOGETHER WITH their weights leaves the combination unchanged: any weighting
   that is equivariant under row permutations yields a permutation-invariant aggregator; this is
   also the Constant / preference-vector clause (weights permuted alongside) *)
Theorem C10_meta : forall n J J' w w', wfmat n J -> J <> [] ->
  length w = length J -> length w' = length J' ->
  Permutation (List.combine w J) (List.combine w' J') ->
  combineR J w = combineR J' w'.
Proof. exact perm_meta. Qed.
Print Assumptions C10_meta.

Theorem C10_mean_sum : forall n J J', wfmat n J -> J <> [] -> Permutation J J' ->
  agg_mean RN J = agg_mean RN J' /\ agg_sum RN J = agg_sum RN J'.
Proof. exact mean_sum_perm. Qed.
Print Assumptions C10_mean_sum.

Theorem C10_trimmed_mean : forall n b J J', wfmat n J -> J <> [] -> Permutation J J' ->
  agg_trimmed_mean RN b J = agg_trimmed_mean RN b J'.
Proof. exact trimmed_mean_perm. Qed.
Print Assumptions C10_trimmed_mean.
