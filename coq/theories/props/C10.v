(* C10 — the order of the objectives does not matter.  PARTIAL: meta-theorem + Mean, Sum,
   any fixed weights permuted alongside (Constant), TrimmedMean; the QP / iterative / spectral
   aggregators are checked by exhaustive-permutation correspondence and oracle only. *)
From Coq Require Import Reals List Bool Arith Permutation.
From TJ Require Import Num Linalg NumR Agg.
From TJ.proofs Require Import LinalgR C10Proofs.
Import ListNotations.
Local Open Scope R_scope.

(* permuting the rows TOGETHER WITH their weights leaves the combination unchanged: any weighting
   that is equivariant under row permutations yields a permutation-invariant aggregator; this is
   also the Constant / preference-vector clause (weights permuted alongside) *)
Theorem C10_meta : forall n J J' w w', wfmat n J -> J <> [] ->
  length w = length J -> length w' = length J' ->
  Permutation (List.combine w J) (List.combine w' J') ->
  combineR J w = combineR J' w'.
Proof. exact perm_meta. Qed.
Print Assumptions C10_meta.

Theorem C10_mean_sum : forall n J J', wfmat n J -> J <> [] -> Permutation J J' ->
  agg_mean RN J = agg_mean RN J' /\ agg_sum RN J = agg_sum RN J'.
Proof. exact mean_sum_perm. Qed.
Print Assumptions C10_mean_sum.

Theorem C10_trimmed_mean : forall n b J J', wfmat n J -> J <> [] -> Permutation J J' ->
  agg_trimmed_mean RN b J = agg_trimmed_mean RN b J'.
Proof. exact trimmed_mean_perm. Qed.
Print Assumptions C10_trimmed_mean.

(* ---- added: equivariance of the QP-, score- and pseudo-inverse-based weightings ---- *)
From TJ.proofs Require Import QPProofs C16Proofs EquivarianceProofs.
(* the Gramian of the permuted matrix is the Gramian permuted on both sides *)
Theorem C10_gram_perm : forall J p, gramR (perm_rows p J) = permM p (gramR J).
Proof. exact gram_perm_rows. Qed.
Print Assumptions C10_gram_perm.
(* the constrained minimiser travels with the permutation *)
Theorem C10_qp_minimiser_equivariant : forall m M p u w, length M = m -> wfmat m M -> is_perm m p ->
  length u = m -> length w = m ->
  (is_min m M u w <-> is_min m (permM p M) (permR p u) (permR p w)).
Proof. exact is_min_perm_iff. Qed.
Print Assumptions C10_qp_minimiser_equivariant.
(* ... and is unique for the regularised normalised Gramian, on both sides of the norm_eps branch *)
Theorem C10_qp_minimiser_unique : forall n J p s ne re u w w', wfmat n J -> is_perm (length J) p ->
  (nltb RN s ne = false -> 0 < s) -> 0 < re ->
  is_min (length J) (reg_norm_gramian RN (gramR J) s ne re) u w ->
  is_min (length J) (reg_norm_gramian RN (gramR (perm_rows p J)) s ne re) (permR p u) w' ->
  w' = permR p w.
Proof. exact reg_min_perm_unique. Qed.
Print Assumptions C10_qp_minimiser_unique.
(* DualProj / UPGrad: whenever the QP oracle answers are minimisers on both sides, permuting the
   rows leaves A(J) unchanged (preference vectors permuted alongside: agg_dualproj_perm /
   agg_upgrad_perm in EquivarianceProofs.v) *)
Theorem C10_dualproj : forall n J J' qp s ne re, wfmat n J -> J <> [] -> Permutation J J' ->
  (nltb RN s ne = false -> 0 < s) -> 0 < re ->
  let m := length J in
  let u := mean_weights RN m in
  let M := reg_norm_gramian RN (gramR J) s ne re in
  let M' := reg_norm_gramian RN (gramR J') s ne re in
  is_min m M u (qp M u) -> is_min m M' u (qp M' u) ->
  agg_dualproj RN qp None s ne re J' = agg_dualproj RN qp None s ne re J.
Proof. exact agg_dualproj_Permutation. Qed.
Print Assumptions C10_dualproj.
Theorem C10_upgrad : forall n J J' qp s ne re, wfmat n J -> J <> [] -> Permutation J J' ->
  (nltb RN s ne = false -> 0 < s) -> 0 < re ->
  let m := length J in
  let u := mean_weights RN m in
  let M := reg_norm_gramian RN (gramR J) s ne re in
  let M' := reg_norm_gramian RN (gramR J') s ne re in
  (forall i, (i < m)%nat ->
     is_min m M (onehotR m i (vget RN u i)) (qp M (onehotR m i (vget RN u i))) /\
     is_min m M' (onehotR m i (vget RN u i)) (qp M' (onehotR m i (vget RN u i)))) ->
  agg_upgrad RN qp None s ne re J' = agg_upgrad RN qp None s ne re J.
Proof. exact agg_upgrad_Permutation. Qed.
Print Assumptions C10_upgrad.
(* Krum: with pairwise distinct scores (no exact ties) *)
Theorem C10_krum : forall n J J' f k, wfmat n J -> J <> [] -> Permutation J J' ->
  distinct_on (length J) (krum_scores RN (krum_distances RN (gramR J)) (length J - f - 2)) ->
  agg_krum RN f k J' = agg_krum RN f k J.
Proof. exact agg_krum_Permutation. Qed.
Print Assumptions C10_krum.
(* IMTL-G: a Penrose inverse of the permuted Gramian exists for which the result is unchanged *)
Theorem C10_imtlg : forall n J J' P thr, wfmat n J -> J <> [] -> Permutation J J' ->
  length P = length J -> wfmat (length J) P -> is_pinv (length J) (gramR J) P ->
  exists P', is_pinv (length J') (gramR J') P' /\ agg_imtlg RN P' thr J' = agg_imtlg RN P thr J.
Proof. exact agg_imtlg_Permutation. Qed.
Print Assumptions C10_imtlg.

(* ---- added: ConFIG, MGDA (no exact ties at the argmin), CAGrad, Aligned-MTL ---- *)
From TJ.proofs Require Import C03Proofs C18Proofs C08Proofs C11Proofs MgdaProofs PublishedProofs ImpartialProofs ScalingProofs ConfigProofs SpectralProofs.
Theorem C10_config : forall J p B pref, wfmat (length J) B -> is_perm (length J) p ->
  (forall w, pref = Some w -> length w = length J) ->
  agg_config RN (config_pinv_perm p B) (option_map (permR p) pref) (perm_rows p J) =
  agg_config RN B pref J.
Proof. exact agg_config_perm. Qed.
Print Assumptions C10_config.
Theorem C10_mgda : forall n J J' eps iters, wfmat n J -> J <> [] -> Permutation J J' ->
  mgda_no_ties iters (gramR J) eps (mean_weights RN (length J)) ->
  agg_mgda RN eps iters J' = agg_mgda RN eps iters J.
Proof. exact agg_mgda_Permutation. Qed.
Print Assumptions C10_mgda.
Theorem C10_cagrad : forall n J p s ne c w_opt, wfmat n J -> J <> [] ->
  is_perm (length J) p -> length w_opt = length J ->
  agg_cagrad RN s ne c (permR p w_opt) (perm_rows p J) = agg_cagrad RN s ne c w_opt J.
Proof. exact agg_cagrad_perm. Qed.
Print Assumptions C10_cagrad.
Theorem C10_cagrad_contract_transfers : forall m Gn p c w_opt, length Gn = m -> wfmat m Gn ->
  is_perm m p -> cagrad_opt Gn c w_opt -> cagrad_opt (permM p Gn) c (permR p w_opt).
Proof. exact cagrad_opt_perm. Qed.
Print Assumptions C10_cagrad_contract_transfers.
Theorem C10_aligned : forall n J p lam Vt tol pref, wfmat n J -> J <> [] ->
  is_perm (length J) p -> length lam = length J ->
  (forall w, pref = Some w -> length w = length J) ->
  agg_aligned RN lam (map (permR p) Vt) tol (option_map (permR p) pref) (perm_rows p J) =
  agg_aligned RN lam Vt tol pref J.
Proof. exact agg_aligned_perm. Qed.
Print Assumptions C10_aligned.

(* ---- GradDrop under a fixed seed (added): the draws u_j belong to the columns, so permuting the rows
   TOGETHER WITH the leak vector leaves every coordinate unchanged (no tie-freeness needed: the sign
   purity and the masked sums are symmetric functions of the zipped (leak_i, J_ij) list) ---- *)
From TJ.proofs Require Import GradDropPermProofs.
Theorem C10_graddrop_coordinate : forall leak leak' col col' u,
  length leak = length col -> length leak' = length col' ->
  Permutation (List.combine leak col) (List.combine leak' col') ->
  graddrop_coord RN leak' col' u = graddrop_coord RN leak col u.
Proof. exact graddrop_coord_perm. Qed.
Print Assumptions C10_graddrop_coordinate.
Theorem C10_graddrop : forall n J J' leak leak' U, wfmat n J ->
  length leak = length J -> length leak' = length J' ->
  Permutation (List.combine leak J) (List.combine leak' J') ->
  agg_graddrop RN (Some leak') U J' = agg_graddrop RN (Some leak) U J.
Proof. exact graddrop_Permutation. Qed.
Print Assumptions C10_graddrop.
Theorem C10_graddrop_default_leak : forall n J J' U, wfmat n J -> Permutation J J' ->
  agg_graddrop RN None U J' = agg_graddrop RN None U J.
Proof. exact graddrop_Permutation_noleak. Qed.
Print Assumptions C10_graddrop_default_leak.
