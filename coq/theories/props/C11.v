(* C11 — aggregators are total, pure, stateless and positively homogeneous.  PARTIAL (see the
   level note): validation rule, output shape, homogeneity of the fixed-weight family, MGDA,
   TrimmedMean and the (fixed) IMTL-G are proved; float-range finiteness, dtype, purity and
   statelessness are by-construction in a functional model and are OBSERVED, not proved. *)
From Coq Require Import Reals List Bool Arith Lia.
From TJ Require Import Num Linalg NumR Agg.
From TJ.proofs Require Import LinalgR C08Proofs C11Proofs.
Import ListNotations.
Local Open Scope R_scope.

(* the shared 2-d / finiteness check: Ok iff 2-d and finite, otherwise ValueError *)
Theorem C11_check_matrix : forall ndim finite,
  (check_matrix ndim finite = Ok tt <-> ndim = 2%nat /\ finite = true) /\
  (check_matrix ndim finite <> Ok tt -> check_matrix ndim finite = Err ValueError).
Proof. intros. split; [apply check_matrix_iff|apply check_matrix_err]. Qed.
Print Assumptions C11_check_matrix.

(* row-count rules: Constant / preference vectors, GradDrop's leak, TrimmedMean, Krum *)
Theorem C11_row_count_rules : forall (w : list R) b f k leak U (J : list (list R)),
  (length w <> length J -> agg_constant RN w J = Err ValueError) /\
  (length leak <> length J -> agg_graddrop RN (Some leak) U J = Err ValueError) /\
  ((length J < 2 * b + 1)%nat -> agg_trimmed_mean RN b J = Err ValueError) /\
  ((length J < f + 3)%nat \/ (length J < k)%nat -> agg_krum RN f k J = Err ValueError).
Proof.
  intros w b f k leak U J. repeat match goal with |- _ /\ _ => split end.
  - intros H. unfold agg_constant, weighted. rewrite (proj2 (constant_weights_iff w (length J)) H). reflexivity.
  - intros H. unfold agg_graddrop. destruct (Nat.eqb_spec (length leak) (length J)); [contradiction|reflexivity].
  - intros H. unfold agg_trimmed_mean. destruct (Nat.ltb_spec (length J) (1 + 2 * b)); [reflexivity|lia].
  - intros H. unfold agg_krum. destruct (Nat.ltb_spec (length J) (f + 3)); [reflexivity|].
    destruct (Nat.ltb_spec (length J) k); [reflexivity|lia].
Qed.
Print Assumptions C11_row_count_rules.

(* one entry per column *)
Theorem C11_shape : forall n J, wfmat n J -> J <> [] ->
  (forall r v, weighted RN J r = Ok v -> length v = ncols J) /\
  (forall b v, agg_trimmed_mean RN b J = Ok v -> length v = ncols J) /\
  (forall leak U v, length U = ncols J -> agg_graddrop RN leak U J = Ok v -> length v = ncols J).
Proof.
  intros n J HJ Hne. repeat match goal with |- _ /\ _ => split end; intros.
  - eapply weighted_shape; eauto.
  - eapply trimmed_mean_shape; eauto.
  - eapply graddrop_shape; eauto.
Qed.
Print Assumptions C11_shape.

(* A(tJ) = t A(J): every fixed weighting (Mean, Sum, Constant, Random under a fixed draw) *)
Theorem C11_homogeneous_fixed_weights : forall n t J w, wfmat n J ->
  combineR (mscale RN t J) w = vscaleR t (combineR J w).
Proof. exact combine_mscale. Qed.
Print Assumptions C11_homogeneous_fixed_weights.

(* ... any weighting that is invariant under positive scaling of the Gramian *)
Theorem C11_homogeneous_meta : forall n t J (Omega : list (list R) -> res (list R)), wfmat n J ->
  Omega (mscale RN (t * t) (gramR J)) = Omega (gramR J) ->
  weighted RN (mscale RN t J) (Omega (gramR (mscale RN t J))) =
  res_map (vscaleR t) (weighted RN J (Omega (gramR J))).
Proof. exact homogeneous_meta. Qed.
Print Assumptions C11_homogeneous_meta.

Theorem C11_homogeneous_mgda : forall n t eps iters J, wfmat n J -> 0 < t ->
  agg_mgda RN eps iters (mscale RN t J) = vscaleR t (agg_mgda RN eps iters J).
Proof. exact mgda_homogeneous. Qed.
Print Assumptions C11_homogeneous_mgda.

Theorem C11_homogeneous_trimmed_mean : forall t b J, 0 < t ->
  agg_trimmed_mean RN b (mscale RN t J) = res_map (vscaleR t) (agg_trimmed_mean RN b J).
Proof. exact trimmed_mean_homogeneous. Qed.
Print Assumptions C11_homogeneous_trimmed_mean.

(* IMTL-G after the fix (scale-free guard); P/t^2 is the pseudo-inverse of t^2 G *)
Theorem C11_homogeneous_imtlg : forall n t P thr J, wfmat n J -> 0 < t -> 0 < thr ->
  agg_imtlg RN (mscale RN (1 / (t * t)) P) thr (mscale RN t J) = vscaleR t (agg_imtlg RN P thr J).
Proof. exact imtlg_homogeneous. Qed.
Print Assumptions C11_homogeneous_imtlg.

(* the absolute guard of the code before the fix refutes homogeneity (regression witness D3) *)
Theorem C11_imtlg_v0_refuted :
  exists (J P P' : list (list R)) (t : R), 0 < t /\ P' = mscale RN (1 / (t * t)) P /\
    combineR (mscale RN t J) (imtlg_weights_v0 RN P' (gramR (mscale RN t J)) (1 / 10 ^ 12)) <>
    vscaleR t (combineR J (imtlg_weights_v0 RN P (gramR J) (1 / 10 ^ 12))).
Proof. exact imtlg_v0_not_homogeneous. Qed.
Print Assumptions C11_imtlg_v0_refuted.

(* ---- homogeneity of the remaining aggregators (added).  Kernel oracles on the scaled side receive
   the scaled arguments (sigma_max t*s, eigenvalues t^2*lam, the same pinv oracle for the unchanged
   unit rows, the same conic answer in the invariant normalised geometry): homogeneity of the
   kernels themselves is the oracle contract, the glue is what is proved. ---- *)
From TJ.proofs Require Import QPProofs C03Proofs C18Proofs C16Proofs HomogeneityProofs.
Theorem C11_homogeneous_pcgrad : forall n t perms J, wfmat n J -> 0 < t ->
  agg_pcgrad RN perms (mscale RN t J) = vscaleR t (agg_pcgrad RN perms J).
Proof. exact pcgrad_homogeneous. Qed.
Print Assumptions C11_homogeneous_pcgrad.
Theorem C11_homogeneous_krum : forall n t f k J, wfmat n J -> 0 < t ->
  agg_krum RN f k (mscale RN t J) = C08Proofs.res_map (vscaleR t) (agg_krum RN f k J).
Proof. exact krum_homogeneous. Qed.
Print Assumptions C11_homogeneous_krum.
Theorem C11_homogeneous_dualproj : forall n t qp pref s ne re J, wfmat n J -> 0 < t ->
  nltb RN (t * s) ne = nltb RN s ne ->
  agg_dualproj RN qp pref (t * s) ne re (mscale RN t J) =
  C08Proofs.res_map (vscaleR t) (agg_dualproj RN qp pref s ne re J).
Proof. exact dualproj_homogeneous. Qed.
Print Assumptions C11_homogeneous_dualproj.
Theorem C11_homogeneous_upgrad : forall n t qp pref s ne re J, wfmat n J -> 0 < t ->
  nltb RN (t * s) ne = nltb RN s ne ->
  agg_upgrad RN qp pref (t * s) ne re (mscale RN t J) =
  C08Proofs.res_map (vscaleR t) (agg_upgrad RN qp pref s ne re J).
Proof. exact upgrad_homogeneous. Qed.
Print Assumptions C11_homogeneous_upgrad.
Theorem C11_homogeneous_cagrad : forall n t s ne c w_opt J, wfmat n J -> 0 < t ->
  nltb RN (t * s) ne = nltb RN s ne ->
  agg_cagrad RN (t * s) ne c w_opt (mscale RN t J) = vscaleR t (agg_cagrad RN s ne c w_opt J).
Proof. exact cagrad_homogeneous. Qed.
Print Assumptions C11_homogeneous_cagrad.
Theorem C11_homogeneous_config : forall t B pref J, 0 < t ->
  config_units RN (mscale RN t J) = config_units RN J /\
  agg_config RN B pref (mscale RN t J) = C08Proofs.res_map (vscaleR t) (agg_config RN B pref J).
Proof. exact config_homogeneous. Qed.
Print Assumptions C11_homogeneous_config.
Theorem C11_homogeneous_aligned : forall n t lam Vt tol pref J, wfmat n J -> 0 < t ->
  agg_aligned RN (vscaleR (t * t) lam) Vt (t * t * tol) pref (mscale RN t J) =
  C08Proofs.res_map (vscaleR t) (agg_aligned RN lam Vt tol pref J).
Proof. exact aligned_homogeneous. Qed.
Print Assumptions C11_homogeneous_aligned.
Theorem C11_homogeneous_graddrop : forall t leak U J, 0 < t ->
  agg_graddrop RN leak U (mscale RN t J) = C08Proofs.res_map (vscaleR t) (agg_graddrop RN leak U J).
Proof. exact graddrop_homogeneous. Qed.
Print Assumptions C11_homogeneous_graddrop.
