(* C12 — default parameter discovery finds exactly the leaves that matter.  Obligations only.
   Graph facts hold for every finite directed graph of autograd nodes (cyclic or not).
   The model follows the code AFTER the repair of defect D4 (fix cc8b49f): tensors are identified by
   their gradient EDGE (node, output number), so excluding one output of a multi-output function
   does not exclude its siblings. *)
From Coq Require Import List Bool Arith.
From TJ Require Import Num Linalg Chunk Autojac Traverse.
From TJ.proofs Require Import TraverseProofs C12Proofs.
Import ListNotations.

(* the walk returns exactly the AccumulateGrad nodes reachable from a non-excluded root edge along
   paths none of whose edges is excluded (soundness and completeness) *)
Theorem C12_bfs_is_reachability : forall next acc fuel roots excl res,
  descendant_accumulate_grads next acc fuel roots excl = Some res ->
  forall a, In a res <->
    (acc a <> None /\ exists r k, In (r, k) roots /\ ~ In (r, k) excl /\ epath next excl r a).
Proof. exact bfs_sound_complete. Qed.
Print Assumptions C12_bfs_is_reachability.

(* the out-of-fuel branch of the totalised model is unreachable on a finite graph *)
Theorem C12_fuel_suffices : forall next acc nodes fuel roots excl,
  NoDup nodes -> (forall r k, In (r, k) roots -> In r nodes) ->
  (forall n c k, In n nodes -> In (Some (c, k)) (next n) -> In c nodes) ->
  length nodes < fuel ->
  descendant_accumulate_grads next acc fuel roots excl <> None.
Proof. exact bfs_fuel_suffices. Qed.
Print Assumptions C12_fuel_suffices.

Section C12.
Context {T : Type} (N : Num T) (P : prog T) (E : egraph) (A : list (list T) -> res (list T)).

(* the discovered set: the variables of the AccumulateGrad nodes reachable from the gradient edge of
   some tensor along a path that uses none of the gradient edges of the excluded tensors *)
Theorem C12_leaf_set : forall tensors excluded leaves,
  get_leaf_tensors P E tensors excluded = Ok leaves ->
  (forall t, In t tensors -> p_gfn P t <> None) /\
  (forall t, In t excluded -> p_gfn P t <> None) /\
  NoDup leaves /\
  (forall t, In t leaves <->
     exists a o r, p_acc P a = Some t /\ In o tensors /\ p_gfn P o = Some r /\
                   ~ In (r, e_onr E o) (tensor_edges P E excluded) /\
                   epath (e_next E) (tensor_edges P E excluded) r a).
Proof. exact (get_leaf_tensors_ok P E). Qed.

(* an edge is excluded iff it is the gradient edge of an excluded tensor: the siblings of an excluded
   output of a multi-output node are NOT excluded (the content of the D4 repair) *)
Theorem C12_excluded_edges : forall ts n k,
  In (n, k) (tensor_edges P E ts) <-> exists t, In t ts /\ p_gfn P t = Some n /\ e_onr E t = k.
Proof. exact (tensor_edges_In P E). Qed.

Theorem C12_leaf_set_total : forall nodes tensors excluded,
  graph_closed P E nodes ->
  (forall t, In t (tensors ++ excluded) -> p_gfn P t <> None) ->
  exists leaves, get_leaf_tensors P E tensors excluded = Ok leaves.
Proof. exact (get_leaf_tensors_total P E). Qed.

Theorem C12_no_grad_fn_rejected : forall tensors excluded,
  (exists t, In t (tensors ++ excluded) /\ p_gfn P t = None) ->
  get_leaf_tensors P E tensors excluded = Err ValueError.
Proof. exact (get_leaf_tensors_rejects P E). Qed.

(* backward without inputs behaves exactly as the explicit call on that set *)
Theorem C12_backward_default : forall sigma tensors k retain s leaves,
  get_leaf_tensors P E tensors [] = Ok leaves ->
  backward_default N P E A sigma tensors k retain s
  = backward_model N P A tensors (sigma leaves) k retain s.
Proof. exact (backward_default_is_explicit N P E A). Qed.

(* mtl_backward without parameter lists behaves exactly as the explicit call: shared = leaves of
   the features; task i = leaves of loss i found without passing through the features *)
Theorem C12_mtl_defaults : forall sigma losses features k retain s sh ts,
  get_leaf_tensors P E features [] = Ok sh ->
  Forall2 (fun loss l => get_leaf_tensors P E [loss] features = Ok l) losses ts ->
  mtl_backward_default N P E A sigma losses features None None k retain s
  = mtl_backward_model N P A losses features (map sigma ts) (sigma sh) k retain s.
Proof. exact (mtl_default_is_explicit N P E A). Qed.
Theorem C12_mtl_default_shared : forall sigma losses features tasks k retain s sh,
  get_leaf_tensors P E features [] = Ok sh ->
  mtl_backward_default N P E A sigma losses features (Some tasks) None k retain s
  = mtl_backward_model N P A losses features tasks (sigma sh) k retain s.
Proof. exact (mtl_default_shared_only N P E A). Qed.
Theorem C12_mtl_default_tasks : forall sigma losses features shared k retain s ts,
  Forall2 (fun loss l => get_leaf_tensors P E [loss] features = Ok l) losses ts ->
  mtl_backward_default N P E A sigma losses features None (Some shared) k retain s
  = mtl_backward_model N P A losses features (map sigma ts) shared k retain s.
Proof. exact (mtl_default_tasks_only N P E A). Qed.

(* overlapping sets: rejected, nothing changes *)
Theorem C12_mtl_overlap_rejected : forall losses features tasks shared k retain s q ps,
  In ps tasks -> In q ps -> In q shared ->
  mtl_backward_model N P A losses features tasks shared k retain s = (Err ValueError, s).
Proof. exact (mtl_overlap_rejected N P A). Qed.
End C12.
Print Assumptions C12_leaf_set.
Print Assumptions C12_excluded_edges.
Print Assumptions C12_leaf_set_total.
Print Assumptions C12_no_grad_fn_rejected.
Print Assumptions C12_backward_default.
Print Assumptions C12_mtl_defaults.
Print Assumptions C12_mtl_default_shared.
Print Assumptions C12_mtl_default_tasks.
Print Assumptions C12_mtl_overlap_rejected.

(* non-vacuity: a diamond  y = f(a(x), b(x)): the walk from y finds the AccumulateGrad of x once *)
Example C12_diamond :
  descendant_accumulate_grads
    (fun n => match n with 0 => [Some (1, 0); Some (2, 0)] | 1 => [Some (3, 0)]
                         | 2 => [Some (3, 0); None] | _ => [] end)
    (fun n => match n with 3 => Some 7 | _ => None end) 10 [(0, 0)] [] = Some [3].
Proof. vm_compute. reflexivity. Qed.
(* the D4 witness in the model: node 1 is a two-output function; output 0 is the feature (excluded),
   the loss (node 0) uses output 1: the leaf below node 1 IS found.  With node-level exclusion (the
   code before the fix) it was not. *)
Example C12_sibling_output_not_excluded :
  descendant_accumulate_grads
    (fun n => match n with 0 => [Some (1, 1)] | 1 => [Some (2, 0)] | _ => [] end)
    (fun n => match n with 2 => Some 9 | _ => None end) 10 [(0, 0)] [(1, 0)] = Some [2].
Proof. vm_compute. reflexivity. Qed.
