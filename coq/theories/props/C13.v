(* C13 — retain_graph means what it means in torch.autograd.  Obligations only.
   The engine's release of saved tensors is the environment model of Autojac.v (ag_sweep /
   exec_nodes), validated against the real engine by the correspondence check; the theorems are
   about the sweeps torchjd issues and the flags it gives them, for every program, chunk size,
   number of rows, and store. *)
From Coq Require Import List Bool Arith.
From TJ Require Import Num Linalg Chunk Autojac Traverse.
From TJ.proofs Require Import ChunkProofs AutojacBasics EntrySpec C20Proofs C13Proofs.
Import ListNotations.

Section C13.
Context {T : Type} (N : Num T) (P : prog T) (A : list (list T) -> res (list T)).

(* one engine run, as a function of the state: it succeeds iff sweep_ok, and frees the executed
   saved nodes exactly when retain = false *)
Theorem C13_engine_run : forall s outs ins rows b retain,
  ag_sweep P s outs ins rows b retain =
  if sweep_ok P s outs ins
  then (Ok tt, mkStore (s_grads s)
                 (if retain then s_freed s else s_freed s ++ saved_exec P outs ins)
                 (mkSweep outs ins rows b retain :: s_log s) (s_next s))
  else (Err RuntimeError, s).
Proof. exact (ag_sweep_spec P). Qed.

(* whether a further differentiation fails or succeeds is a function of the freed set only *)
Theorem C13_followup_depends_on_freed_only : forall (s1 s2 : @store T) outs ins,
  s_freed s1 = s_freed s2 -> sweep_ok P s1 outs ins = sweep_ok P s2 outs ins.
Proof. exact (sweep_ok_freed P). Qed.

(* NO SELF-SABOTAGE: with retain_graph=False the chunked differentiation succeeds for EVERY row
   count m and chunk size k whenever a single engine run would, although it differentiates the
   same graph ceil(m/k) times; it issues exactly the chunk plan's sweeps and frees exactly what
   that single run would free *)
Theorem C13_no_self_sabotage : forall m k retain s outs ins d,
  sweep_ok P s outs ins = true ->
  exists rows, jac_chunks N P s outs ins d (chunk_plan m k retain) =
    (Ok rows, mkStore (s_grads s)
                (if retain then s_freed s else s_freed s ++ saved_exec P outs ins)
                (rev (plan_sweeps outs ins (chunk_plan m k retain)) ++ s_log s) (s_next s)).
Proof. exact (jac_chunks_engine N P). Qed.
Theorem C13_fails_like_one_run : forall m k retain s outs ins d,
  sweep_ok P s outs ins = false ->
  jac_chunks N P s outs ins d (chunk_plan m k retain) = (Err RuntimeError, s).
Proof. exact (jac_chunks_engine_fail N P). Qed.

(* backward: afterwards the graph is freed exactly as after ONE engine run with the caller's flag
   (torch.autograd.backward(tensors, inputs=ord, retain_graph=retain)) *)
Theorem C13_backward_frees_like_torch : forall tensors ord k retain s d' s',
  ord <> [] ->
  backward_model N P A tensors ord k retain s = (Ok d', s') ->
  s_freed s' = if retain then s_freed s else s_freed s ++ saved_exec P tensors ord.
Proof. exact (backward_freed N P A). Qed.
Theorem C13_backward_sweeps : forall tensors ord k retain s d' s',
  ord <> [] ->
  backward_model N P A tensors ord k retain s = (Ok d', s') ->
  exists m, s_log s' = rev (plan_sweeps tensors ord (chunk_plan m k retain)) ++ s_log s.
Proof. exact (backward_log N P A). Qed.

(* retain_graph=True: the graph stays fully usable — for ANY pipeline, successful or not *)
Theorem C13_retain_keeps_graph : forall t s d r s',
  all_retain t = true -> run N P A t s d = (r, s') -> s_freed s' = s_freed s.
Proof. exact (retain_keeps_graph N P A). Qed.
Theorem C13_backward_retain_true : forall tensors ord k s r s',
  backward_model N P A tensors ord k true s = (r, s') -> s_freed s' = s_freed s.
Proof. exact (backward_retain_true N P A). Qed.
Theorem C13_mtl_retain_true : forall losses features tasks shared k s r s',
  mtl_backward_model N P A losses features tasks shared k true s = (r, s') -> s_freed s' = s_freed s.
Proof. exact (mtl_retain_true N P A). Qed.

(* mtl_backward: one engine run per task with the caller's flag, then the chunked Jacobian of the
   features w.r.t. the shared parameters: heads and trunk are freed as by torch.autograd *)
Theorem C13_mtl_frees : forall losses features tasks shared k retain s d' s',
  shared <> [] ->
  mtl_backward_model N P A losses features tasks shared k retain s = (Ok d', s') ->
  s_freed s' = if retain then s_freed s else
    s_freed s
    ++ concat (map (fun pl => saved_exec P [snd pl] (fst pl ++ features)) (combine tasks losses))
    ++ saved_exec P features shared.
Proof. exact (mtl_freed N P A). Qed.
End C13.

Print Assumptions C13_engine_run.
Print Assumptions C13_followup_depends_on_freed_only.
Print Assumptions C13_no_self_sabotage.
Print Assumptions C13_fails_like_one_run.
Print Assumptions C13_backward_frees_like_torch.
Print Assumptions C13_backward_sweeps.
Print Assumptions C13_retain_keeps_graph.
Print Assumptions C13_backward_retain_true.
Print Assumptions C13_mtl_retain_true.
Print Assumptions C13_mtl_frees.

(* ---- mtl_backward with retain_graph=False and separate heads (added): NO SELF-SABOTAGE ----
   heads_separate: the saved-node sets of the per-task engine runs are pairwise disjoint, disjoint
   from the trunk's and from what is already freed (the property's side condition "heads that share
   no graph node besides the features").  It is SUFFICIENT for every engine run of the call to
   succeed, for both flags, and NECESSARY when retain_graph=False; two heads sharing a saved node make
   the call fail with RuntimeError. *)
From Coq Require Import Reals.
From TJ Require Import NumR.
From TJ.proofs Require Import LinalgR AutojacSpec C01Proofs C02Proofs C15Proofs AcceptProofs C13MtlProofs.
Theorem C13_mtl_no_self_sabotage : forall (P : prog R) A losses features tasks shared k retain s v,
  wf_prog P -> shared <> [] ->
  mtl_args_ok P losses features tasks shared k retain = true ->
  heads_separate P s losses features tasks shared ->
  A (mtl_matrix P features shared losses) = Ok v -> length v = total P shared ->
  exists d' s', mtl_backward_model RN P A losses features tasks shared k retain s = (Ok d', s').
Proof. exact mtl_no_self_sabotage. Qed.
Print Assumptions C13_mtl_no_self_sabotage.
Theorem C13_mtl_side_condition_is_exact : forall (P : prog R) A losses features tasks shared k s v,
  wf_prog P -> shared <> [] ->
  mtl_args_ok P losses features tasks shared k false = true ->
  A (mtl_matrix P features shared losses) = Ok v -> length v = total P shared ->
  ((exists d' s', mtl_backward_model RN P A losses features tasks shared k false s = (Ok d', s'))
   <-> heads_separate P s losses features tasks shared).
Proof. exact mtl_retain_false_iff. Qed.
Print Assumptions C13_mtl_side_condition_is_exact.
