(* C14 — transform pipelines are key-typed: ill-formed ones cannot be built or run.
   Obligations only.  All statements hold for every key universe, every nesting depth, every
   number type, program and aggregator (structural induction on transform terms). *)
From Coq Require Import List Bool Arith.
From TJ Require Import Num Linalg Chunk Autojac.
From TJ.proofs Require Import C14Proofs.
Import ListNotations.

Section C14.
Context {T : Type} (N : Num T) (P : prog T) (A : list (list T) -> res (list T)).

(* composing succeeds exactly when the outer transform requires the keys the inner one outputs *)
Theorem C14_compose_iff : forall o i,
  wf (TComp o i) = true <->
  (wf o = true /\ wf i = true /\ forall k, In k (required_keys o) <-> In k (output_keys i)).
Proof. exact compose_iff. Qed.

(* a conjunction exactly when all members require the same keys and output disjoint keys *)
Theorem C14_conj_iff : forall ts,
  wf (TConj ts) = true <->
  (Forall (fun t => wf t = true) ts
   /\ (forall t1 t2, In t1 ts -> In t2 ts ->
         forall k, In k (required_keys t1) <-> In k (required_keys t2))
   /\ NoDup (flat_map output_keys ts)).
Proof. exact conj_iff. Qed.

Theorem C14_stack_iff : forall ts,
  wf (TStack ts) = true <->
  (Forall (fun t => wf t = true) ts
   /\ (forall t1 t2, In t1 ts -> In t2 ts ->
         forall k, In k (required_keys t1) <-> In k (required_keys t2))).
Proof. exact stack_iff. Qed.

Theorem C14_select_iff : forall keys req,
  wf (TSelect keys req) = true <-> (forall k, In k keys -> In k req).
Proof. exact select_iff. Qed.

(* ordered key lists must be duplicate-free *)
Theorem C14_diag_iff : forall c, wf (TDiag c) = true <-> NoDup c.
Proof. exact diag_iff. Qed.

(* applying any transform to a dictionary whose key set differs from its required keys raises
   ValueError — and changes nothing *)
Theorem C14_key_check : forall t s d,
  set_eqb (dkeys d) (required_keys t) = false -> run N P A t s d = (Err ValueError, s).
Proof. exact (key_check N P A). Qed.

(* whenever construction and application succeed, the result has exactly the declared output
   keys and the declared type (for a conjunction: the least common ancestor of the parts) *)
Theorem C14_output_typed : forall t s d d' s',
  wf t = true -> run N P A t s d = (Ok d', s') ->
  (forall k, In k (dkeys d') <-> In k (output_keys t)) /\ dk d' = out_kind t (dk d).
Proof. exact (output_typed N P A). Qed.

(* composition is associative: construction, keys and application *)
Theorem C14_comp_assoc_wf : forall a b c, wf (TComp (TComp a b) c) = wf (TComp a (TComp b c)).
Proof. exact comp_assoc_wf. Qed.
Theorem C14_comp_assoc_run : forall a b c s d,
  run N P A (TComp (TComp a b) c) s d = run N P A (TComp a (TComp b c)) s d.
Proof. exact (comp_assoc_run N P A). Qed.
Theorem C14_comp_assoc_keys : forall a b c,
  required_keys (TComp (TComp a b) c) = required_keys (TComp a (TComp b c)) /\
  output_keys (TComp (TComp a b) c) = output_keys (TComp a (TComp b c)).
Proof. exact comp_assoc_keys. Qed.

(* conjunction is commutative (side-effect-free members): same acceptance, same mapping, same type *)
Theorem C14_conj_comm_wf : forall a b, wf (TConj [a; b]) = wf (TConj [b; a]).
Proof. exact conj_comm_wf. Qed.
Theorem C14_conj_comm : forall a b s d da s',
  pure a = true -> pure b = true -> wf (TConj [a; b]) = true ->
  run N P A (TConj [a; b]) s d = (Ok da, s') ->
  exists db, run N P A (TConj [b; a]) s d = (Ok db, s') /\ dict_equiv da db.
Proof. exact (conj_comm N P A). Qed.

End C14.

(* the dictionary-type lattice: lca is the least upper bound in the subclass order *)
Theorem C14_lca_upper : forall a b, subkind a (lca a b) = true /\ subkind b (lca a b) = true.
Proof. exact lca_upper. Qed.
Theorem C14_lca_least : forall a b c,
  subkind a c = true -> subkind b c = true -> subkind (lca a b) c = true.
Proof. exact lca_least. Qed.
Theorem C14_lca_comm : forall a b, lca a b = lca b a.
Proof. exact lca_comm. Qed.
Theorem C14_lca_assoc : forall a b c, lca (lca a b) c = lca a (lca b c).
Proof. exact lca_assoc. Qed.

Print Assumptions C14_compose_iff.
Print Assumptions C14_conj_iff.
Print Assumptions C14_stack_iff.
Print Assumptions C14_select_iff.
Print Assumptions C14_diag_iff.
Print Assumptions C14_key_check.
Print Assumptions C14_output_typed.
Print Assumptions C14_comp_assoc_wf.
Print Assumptions C14_comp_assoc_run.
Print Assumptions C14_comp_assoc_keys.
Print Assumptions C14_conj_comm_wf.
Print Assumptions C14_conj_comm.
Print Assumptions C14_lca_upper.
Print Assumptions C14_lca_least.
Print Assumptions C14_lca_comm.
Print Assumptions C14_lca_assoc.

(* CONJUNCTION IS ASSOCIATIVE: the three groupings are accepted together, declare the same keys, and
   whenever two groupings both succeed they yield the same mapping and type.  Success itself is NOT
   grouping-independent (C14_conj_assoc_counterexample: an inner union is type-checked with its own
   least common ancestor) — observed identically on the implementation. *)
From TJ.proofs Require Import C14AssocProofs.
Section C14Assoc.
Context {T : Type} (N : Num T) (P : prog T) (A : list (list T) -> res (list T)).
Theorem C14_conj_assoc_wf : forall a b c,
  wf (TConj [TConj [a; b]; c]) = wf (TConj [a; TConj [b; c]]).
Proof. exact conj_assoc_wf. Qed.
Theorem C14_conj_flat_wf : forall a b c,
  wf (TConj [TConj [a; b]; c]) = wf (TConj [a; b; c]).
Proof. exact conj_flat_wf. Qed.
Theorem C14_conj_assoc_keys : forall a b c k,
  (In k (required_keys (TConj [TConj [a; b]; c])) <-> In k (required_keys (TConj [a; TConj [b; c]]))) /\
  (In k (output_keys (TConj [TConj [a; b]; c])) <-> In k (output_keys (TConj [a; TConj [b; c]]))).
Proof. exact conj_assoc_keys. Qed.
Theorem C14_conj_assoc : forall a b c s d d1 s1 d2 s2,
  pure a = true -> pure b = true -> pure c = true ->
  wf (TConj [TConj [a; b]; c]) = true ->
  run N P A (TConj [TConj [a; b]; c]) s d = (Ok d1, s1) ->
  run N P A (TConj [a; TConj [b; c]]) s d = (Ok d2, s2) ->
  dict_equiv d1 d2 /\ s1 = s2.
Proof. exact (conj_assoc_both N P A). Qed.
Theorem C14_conj_flat : forall a b c s d d1 s1,
  pure a = true -> pure b = true -> pure c = true ->
  wf (TConj [TConj [a; b]; c]) = true ->
  run N P A (TConj [TConj [a; b]; c]) s d = (Ok d1, s1) ->
  exists d2, run N P A (TConj [a; b; c]) s d = (Ok d2, s1) /\ dict_equiv d1 d2.
Proof. exact (conj_flat N P A). Qed.
End C14Assoc.
Print Assumptions C14_conj_assoc_wf.
Print Assumptions C14_conj_flat_wf.
Print Assumptions C14_conj_assoc_keys.
Print Assumptions C14_conj_assoc.
Print Assumptions C14_conj_flat.

(* non-vacuity: a well-formed nested term and an ill-formed one *)
Example C14_wf_example :
  wf (TComp (TConj [TSelect [0] [0; 1]; TSelect [1] [0; 1]]) (TInit [0; 1])) = true /\
  wf (TComp (TSelect [0] [0; 1]) (TInit [0])) = false /\
  wf (TConj [TInit [0]; TInit [0]]) = false.
Proof. vm_compute. repeat split. Qed.
