(* C15 — each building-block transform computes its specified linear map, for all shapes.
   Obligations only.  Key counts, shapes (only numel matters: rows are row-major flat data), batch
   sizes, chunk sizes, programs and cotangent values are universally quantified. *)
From Coq Require Import Reals List Bool Arith.
From TJ Require Import Num Linalg NumR Chunk Autojac.
From TJ.proofs Require Import LinalgR ChunkProofs AutojacBasics AutojacSpec EntrySpec C20Proofs C01Proofs C15Proofs.
Import ListNotations.

Section C15gen.
Context {T : Type} (N : Num T) (P : prog T) (A : list (list T) -> res (list T)).

Theorem C15_init_ones : forall vals s d d' s',
  run N P A (TInit vals) s d = (Ok d', s') ->
  s' = s /\ dk d' = KGradients /\
  (forall v, In v vals -> dget d' v = Some (plain (p_shape P v) (vones N (pnumel P v)))) /\
  (forall v, ~ In v vals -> dget d' v = None).
Proof. exact (init_ones N P A). Qed.

Theorem C15_select : forall keys req s d d' s',
  run N P A (TSelect keys req) s d = (Ok d', s') ->
  s' = s /\ dk d' = dk d /\
  (forall k, In k keys -> dget d' k = Some (dget' d k)) /\
  (forall k, ~ In k keys -> dget d' k = None).
Proof. exact (select_spec N P A). Qed.

(* one row per scalar, in key order; row r holds the r-th scalar of the flattened input at
   position r and zeros elsewhere (a one-hot row scaled by that entry); key number j receives its
   own columns, offsets accumulating over the key order *)
Theorem C15_diag : forall c s d d' s',
  NoDup c -> run N P A (TDiag c) s d = (Ok d', s') ->
  let flatv := concat (map (fun k => flat (dget' d k)) c) in
  s' = s /\ dk d' = KJacobians /\
  forall j k, nth_error c j = Some k ->
    dget d' k = Some (mkTens true (p_shape P k)
      (map (fun r => nth j (split_by (map (pnumel P) c)
                                     (onehot N (length flatv) r (nth r flatv (n0 N)))) [])
           (seq 0 (length flatv)))).
Proof. exact (diag_spec N P A). Qed.

(* row i of every key comes from member i, zeros when member i lacks the key; keys = union *)
Theorem C15_stack : forall ts s d d' s',
  run N P A (TStack ts) s d = (Ok d', s') ->
  exists ds, run_list N P A d ts s = (Ok ds, s') /\ dk d' = KJacobians /\
    (forall k, In k (flat_map dkeys ds) ->
       dget d' k = Some (mkTens true (p_shape P k)
                     (map (fun di => match dget di k with
                                     | Some v => flat v | None => vzero N (pnumel P k) end) ds))) /\
    (forall k, ~ In k (flat_map dkeys ds) -> dget d' k = None).
Proof. exact (stack_spec N P A). Qed.
End C15gen.

Section C15R.
Variable P : prog R.
Variable A : list (list R) -> res (list R).

(* Grad: for each input, the vector-Jacobian product of the given cotangents *)
Theorem C15_grad_is_vjp : forall outs ins retain s d d' s',
  wf_prog P -> outs <> [] ->
  (forall o, In o outs -> length (flat (dget' d o)) = pnumel P o) ->
  run RN P A (TGrad outs ins retain) s d = (Ok d', s') ->
  dk d' = dk d /\
  forall i, In i ins ->
    dget d' i = Some (plain (p_shape P i) (vjp RN P outs (map (fun o => flat (dget' d o)) outs) i)).
Proof. exact (grad_is_vjp P A). Qed.

Theorem C15_unreachable_zero : forall outs cots i,
  wf_prog P -> (forall o, In o outs -> p_reach P o i = false) ->
  vjp RN P outs cots i = vzeroR (pnumel P i).
Proof. exact (vjp_unreachable_zero P). Qed.

(* Jac: row r of every output = Grad of row r of the cotangent batch, for EVERY chunk size *)
Theorem C15_jac_rows : forall outs ins k retain s d d' s' m,
  wf_prog P -> outs <> [] -> NoDup ins -> valid_chunk k = true -> (1 <= m)%nat ->
  (forall o, In o outs -> nrows (dget' d o) = m /\
                          Forall (fun row => length row = pnumel P o) (t_rows (dget' d o))) ->
  run RN P A (TJac outs ins k retain) s d = (Ok d', s') ->
  dk d' = dk d /\
  forall i, In i ins ->
    dget d' i = Some (mkTens true (p_shape P i)
      (map (fun r => vjp RN P outs (map (fun o => nth r (t_rows (dget' d o)) []) outs) i) (seq 0 m))).
Proof. exact (jac_rows P A). Qed.

Theorem C15_vjp_linear : forall outs c1 c2 a b i,
  wf_prog P -> length c1 = length outs -> length c2 = length outs ->
  (forall j o, nth_error outs j = Some o ->
     length (nth j c1 []) = pnumel P o /\ length (nth j c2 []) = pnumel P o) ->
  vjp RN P outs (map (fun cc => vaddR (vscaleR a (fst cc)) (vscaleR b (snd cc))) (combine c1 c2)) i
  = vaddR (vscaleR a (vjp RN P outs c1 i)) (vscaleR b (vjp RN P outs c2 i)).
Proof. exact (vjp_linear P). Qed.

(* chaining two differentiations through intermediate tensors equals differentiating end to end,
   whenever the intermediate tensors form a cut (D o i = sum_f D o f * D f i) *)
Theorem C15_chain : forall outs mid i cots,
  wf_prog P -> length cots = length outs ->
  (forall j o, nth_error outs j = Some o -> length (nth j cots []) = pnumel P o) ->
  is_cut P outs mid i ->
  vjp RN P mid (map (fun f => vjp RN P outs cots f) mid) i = vjp RN P outs cots i.
Proof. exact (vjp_chain P). Qed.

(* Aggregate: the aggregator applied to the column-wise concatenation, in key order, of the
   per-key matrices; each key gets back its own reshaped slice *)
Theorem C15_aggregate : forall ord s d d' s',
  ord <> [] -> NoDup ord ->
  (forall k, In k ord -> numel (t_trail (dget' d k)) = pnumel P k) ->
  run RN P A (TAggregate ord) s d = (Ok d', s') ->
  s' = s /\ dk d' = KGradients /\
  exists v,
    A (map (fun r => concat (map (fun k => nth r (t_rows (dget' d k)) []) ord))
           (seq 0 (nrows (dget' d (hd O ord))))) = Ok v /\
    length v = total P ord /\
    forall k, In k ord -> dget d' k = Some (plain (p_shape P k) (slice_of P ord v k)).
Proof. exact (aggregate_spec P A). Qed.
End C15R.

Print Assumptions C15_init_ones.
Print Assumptions C15_select.
Print Assumptions C15_diag.
Print Assumptions C15_stack.
Print Assumptions C15_grad_is_vjp.
Print Assumptions C15_unreachable_zero.
Print Assumptions C15_jac_rows.
Print Assumptions C15_vjp_linear.
Print Assumptions C15_chain.
Print Assumptions C15_aggregate.

(* ---- chaining at the TRANSFORM level (added): Jac(mid -> ins) o Jac(outs -> mid) = Jac(outs -> ins)
   whenever mid is a cut, for all three chunk sizes and flags independently; same for Grad ---- *)
From TJ.proofs Require Import C02Proofs C05Proofs EndToEndProofs.
Theorem C15_jac_chain : forall (P : prog R) A outs mid ins k1 r1 k2 r2 k r s d dc sc se de se' m,
  wf_prog P -> outs <> [] -> mid <> [] -> NoDup mid -> NoDup ins ->
  valid_chunk k1 = true -> valid_chunk k2 = true -> valid_chunk k = true -> (1 <= m)%nat ->
  (forall o, In o outs -> nrows (dget' d o) = m /\
                          Forall (fun row => length row = pnumel P o) (t_rows (dget' d o))) ->
  (forall i, In i ins -> is_cut P outs mid i) ->
  run RN P A (TComp (TJac mid ins k2 r2) (TJac outs mid k1 r1)) s d = (Ok dc, sc) ->
  run RN P A (TJac outs ins k r) se d = (Ok de, se') ->
  dk dc = dk de /\
  forall i, In i ins ->
    dget dc i = dget de i /\
    dget dc i = Some (mkTens true (p_shape P i)
      (map (fun r0 => vjp RN P outs (map (fun o => nth r0 (t_rows (dget' d o)) []) outs) i)
           (seq 0 m))).
Proof. exact jac_comp_chain. Qed.
Print Assumptions C15_jac_chain.
Theorem C15_grad_chain : forall (P : prog R) A outs mid ins r1 r2 r s d dc sc se de se',
  wf_prog P -> outs <> [] -> mid <> [] -> NoDup mid ->
  (forall o, In o outs -> length (flat (dget' d o)) = pnumel P o) ->
  (forall i, In i ins -> is_cut P outs mid i) ->
  run RN P A (TComp (TGrad mid ins r2) (TGrad outs mid r1)) s d = (Ok dc, sc) ->
  run RN P A (TGrad outs ins r) se d = (Ok de, se') ->
  dk dc = dk de /\ forall i, In i ins -> dget dc i = dget de i.
Proof. exact grad_comp_chain. Qed.
Print Assumptions C15_grad_chain.
