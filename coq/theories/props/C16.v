(* C16 — Byzantine-robust aggregators ignore a bounded number of arbitrary rows. *)
From Coq Require Import Reals List Bool Arith Lia Permutation Sorted.
From TJ Require Import Num Linalg NumR Agg.
From TJ.proofs Require Import LinalgR C16Proofs.
Import ListNotations.
Local Open Scope R_scope.

(* the model sorts each column: a sorted permutation, so dropping the first b and last b entries
   removes the b smallest and the b largest *)
Theorem C16_tm_sorted_column : forall col,
  Permutation (isort RN col) col /\ StronglySorted Rle (isort RN col) /\
  forall b, trimmed RN b col =
    vsumR (firstn (length col - 2 * b) (skipn b (isort RN col))) /
    INR (length (firstn (length col - 2 * b) (skipn b (isort RN col)))).
Proof.
  intros col. split; [apply isort_perm|]. split; [apply isort_sorted|]. intros b. reflexivity.
Qed.
Print Assumptions C16_tm_sorted_column.

(* robustness: the column is any arrangement of honest entries (all within [lo,hi]) and at most b
   arbitrary real entries; the trimmed mean stays within [lo,hi] *)
Theorem C16_tm_robust : forall b col honest corrupt lo hi,
  Permutation col (honest ++ corrupt) -> (length corrupt <= b)%nat ->
  (2 * b + 1 <= length col)%nat ->
  (forall h, In h honest -> lo <= h) -> (forall h, In h honest -> h <= hi) ->
  lo <= trimmed RN b col <= hi.
Proof. exact trimmed_robust. Qed.
Print Assumptions C16_tm_robust.

(* every output coordinate of TrimmedMean is the trimmed mean of its own column *)
Theorem C16_tm_columnwise : forall b J, (2 * b + 1 <= length J)%nat ->
  agg_trimmed_mean RN b J = Ok (map (fun j => trimmed RN b (column RN J j)) (seq 0 (ncols J))).
Proof.
  intros b J H. unfold agg_trimmed_mean.
  destruct (Nat.ltb_spec (length J) (1 + 2 * b)); [lia|reflexivity].
Qed.
Print Assumptions C16_tm_columnwise.

(* Krum: exactly k distinct rows, those of smallest score *)
Theorem C16_krum_selection : forall k v, (k <= length v)%nat ->
  let sel := smallest_k RN k v in
  NoDup sel /\ length sel = k /\ (forall i, In i sel -> (i < length v)%nat) /\
  (forall i j, In i sel -> (j < length v)%nat -> ~ In j sel -> nth i v 0 <= nth j v 0).
Proof. exact smallest_k_spec. Qed.
Print Assumptions C16_krum_selection.

(* ... combined with weight 1/k each (a plain average), 0 for the others *)
Theorem C16_krum_weights : forall D f k, (1 <= k)%nat ->
  let m := length D in
  let sel := smallest_k RN k (krum_scores RN D (m - f - 2)) in
  NoDup sel ->
  forall i, (i < m)%nat ->
    nth i (krum_weights_of_dist RN D f k) 0 = if in_dec Nat.eq_dec i sel then 1 / INR k else 0.
Proof. exact krum_weights_spec. Qed.
Print Assumptions C16_krum_weights.

(* too few rows are rejected *)
Theorem C16_reject_few_rows : forall b f k J,
  ((length J < 2 * b + 1)%nat -> agg_trimmed_mean RN b J = Err ValueError) /\
  ((length J < f + 3)%nat \/ (length J < k)%nat -> agg_krum RN f k J = Err ValueError).
Proof.
  intros b f k J. split.
  - intros H. unfold agg_trimmed_mean. destruct (Nat.ltb_spec (length J) (1 + 2 * b)); [reflexivity|lia].
  - intros H. unfold agg_krum. destruct (Nat.ltb_spec (length J) (f + 3)); [reflexivity|].
    destruct (Nat.ltb_spec (length J) k); [reflexivity|lia].
Qed.
Print Assumptions C16_reject_few_rows.

(* non-vacuity: b = 1, four rows, one corrupted by 10^12 *)
Example C16_example : 1 <= trimmed RN 1 [2; 1000000000000; 1; 3] <= 3.
Proof.
  apply (trimmed_robust 1 _ [2; 1; 3] [1000000000000]).
  - apply Permutation_cons; [reflexivity|]. apply (Permutation_cons_append [1; 3] 1000000000000).
  - cbn; lia.
  - cbn; lia.
  - intros h [<-|[<-|[<-|[]]]]; Lra.lra.
  - intros h [<-|[<-|[<-|[]]]]; Lra.lra.
Qed.

(* ---- Krum (added): "drop the first of the m-f-1 smallest distances" IS "the m-f-2 nearest OTHER
   rows": the dropped entry is the distance of the row to itself ---- *)
From TJ.proofs Require Import QPProofs C18Proofs ScalingProofs.
Theorem C16_krum_neighbourhood : forall G nc i, (i < length G)%nat ->
  nth i (krum_scores RN (krum_distances RN G) nc) 0 =
  vsumR (firstn nc (isort RN (map (fun j => krum_dist RN G i j)
                                   (seq 0 i ++ seq (S i) (length G - S i))))).
Proof. exact krum_scores_of_gramian. Qed.
Print Assumptions C16_krum_neighbourhood.

(* ---- Krum looks at DIFFERENCES of rows only: adding one vector to every row (workers' gradients around a
   common mean, however large) changes neither the distances nor the selection, and moves the result by that
   vector.  (The harness runs Krum on float64 rows 2^30 + small deviations, which float32 cannot tell apart.) ---- *)
From TJ.proofs Require Import KrumTranslate.
Theorem C16_krum_translation_invariant_selection : forall J v n f k,
  Forall (fun r => length r = n) J -> length v = n ->
  krum_distances RN (gram RN (translate v J)) = krum_distances RN (gram RN J) /\
  krum_weights_of_dist RN (krum_distances RN (gram RN (translate v J))) f k =
  krum_weights_of_dist RN (krum_distances RN (gram RN J)) f k.
Proof.
  intros J v n f k HJ Hv. split;
    [exact (krum_distances_translate J v n HJ Hv) | exact (krum_weights_translate J v n f k HJ Hv)].
Qed.
Print Assumptions C16_krum_translation_invariant_selection.

Theorem C16_krum_translation_equivariant : forall J v n f k, J <> [] ->
  Forall (fun r => length r = n) J -> length v = n -> (1 <= k)%nat ->
  agg_krum RN f k (translate v J) =
  match agg_krum RN f k J with Ok a => Ok (vadd RN a v) | Err e => Err e end.
Proof. exact agg_krum_translate. Qed.
Print Assumptions C16_krum_translation_equivariant.

(* ---- instance gap (added): the executed TrimmedMean model maps to the real one ---- *)
From Coq Require Import QArith Qreals.
From TJ Require Import NumQ.
From TJ.proofs Require Import TransferProofs TransferAggProofs.
Theorem C16_executed_trimmed_mean_is_the_real_model : forall b J,
  agg_trimmed_mean RN b (map (map Q2R) J)
  = match agg_trimmed_mean QN b J with Ok v => Ok (map Q2R v) | Err e => Err e end.
Proof. exact agg_trimmed_mean_Q_to_R. Qed.
Print Assumptions C16_executed_trimmed_mean_is_the_real_model.
