(* C17 — impartial aggregators treat every objective alike.  PARTIAL: IMTL-G's defining equalities
   and the zero-matrix clause are proved from the pinv contract; ConFIG's cosines and Aligned-MTL's
   re-balanced rows are checked by the direct oracle only. *)
From Coq Require Import Reals List Bool Arith.
From TJ Require Import Num Linalg NumR Agg.
From TJ.proofs Require Import LinalgR C10Proofs.
Import ListNotations.
Local Open Scope R_scope.

(* independent rows: the Gramian is invertible and its pseudo-inverse P satisfies G P = I.
   Then the weights sum to one and (J.A(J))_i = |g_i| / sigma for EVERY i: the projection of A(J)
   onto the direction of every row is the same number 1/sigma. *)
Theorem C17_imtlg : forall n J P thr, wfmat n J -> J <> [] -> length P = length J ->
  (forall x, length x = length J -> mvR (gramR J) (mvR P x) = x) ->
  let G := gramR J in
  let d := map (fun i => sqrt (mget RN G i i)) (seq 0 (length G)) in
  let sigma := vsumR (mvR P d) in
  nltb RN (nabs RN sigma * vsumR d) thr = false -> sigma <> 0 ->
  let w := imtlg_weights RN P G thr in
  vsumR w = 1 /\
  forall i, (i < length J)%nat -> nth i (mvR J (agg_imtlg RN P thr J)) 0 = nth i d 0 / sigma.
Proof. exact imtlg_equal_projections. Qed.
Print Assumptions C17_imtlg.

(* all-zero matrix: IMTL-G and Aligned-MTL (weighted: w . 0 = 0 whatever w) and ConFIG *)
Theorem C17_zero_weighted : forall m n w, vmR n w (repeat (vzeroR n) m) = vzeroR n.
Proof. exact weighted_zero_matrix. Qed.
Print Assumptions C17_zero_weighted.

Theorem C17_zero_config : forall B pref m n v,
  agg_config RN B pref (repeat (vzeroR n) m) = Ok v -> Forall (fun x => x = 0) v.
Proof. exact config_zero_matrix. Qed.
Print Assumptions C17_zero_config.
