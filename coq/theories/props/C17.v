(* C17 — impartial aggregators treat every objective alike.  PARTIAL: IMTL-G's defining equalities
   and the zero-matrix clause are proved from the pinv contract; ConFIG's cosines and Aligned-MTL's
   re-balanced rows are checked by the direct oracle only. *)
From Coq Require Import Reals List Bool Arith.
From TJ Require Import Num Linalg NumR Agg.
From TJ.proofs Require Import LinalgR C10Proofs.
Import ListNotations.
Local Open Scope R_scope.

(* independent rows: the Gramian is invertible and its pseudo-inverse P satisfies G P = I.
   Then the weights sum to one and (J.A(J))_i = |g_i| / sigma for EVERY i: the projection of A(J)
   onto the direction of every row is the same number 1/sigma. *)
Theorem C17_imtlg : forall n J P thr, wfmat n J -> J <> [] -> length P = length J ->
  (forall x, length x = length J -> mvR (gramR J) (mvR P x) = x) ->
  let G := gramR J in
  let d := map (fun i => sqrt (mget RN G i i)) (seq 0 (length G)) in
  let sigma := vsumR (mvR P d) in
  nltb RN (nabs RN sigma * vsumR d) thr = false -> sigma <> 0 ->
  let w := imtlg_weights RN P G thr in
  vsumR w = 1 /\
  forall i, (i < length J)%nat -> nth i (mvR J (agg_imtlg RN P thr J)) 0 = nth i d 0 / sigma.
Proof. exact imtlg_equal_projections. Qed.
Print Assumptions C17_imtlg.

(* all-zero matrix: IMTL-G and Aligned-MTL (weighted: w . 0 = 0 whatever w) and ConFIG *)
Theorem C17_zero_weighted : forall m n w, vmR n w (repeat (vzeroR n) m) = vzeroR n.
Proof. exact weighted_zero_matrix. Qed.
Print Assumptions C17_zero_weighted.

Theorem C17_zero_config : forall B pref m n v,
  agg_config RN B pref (repeat (vzeroR n) m) = Ok v -> Forall (fun x => x = 0) v.
Proof. exact config_zero_matrix. Qed.
Print Assumptions C17_zero_config.

(* ---- ConFIG and Aligned-MTL (added), from the kernel contracts ---- *)
From TJ.proofs Require Import QPProofs ImpartialProofs.
(* ConFIG: with the pseudo-inverse contract U B = I for the unit rows U (full row rank), non-zero
   rows and positive weights w (ones by default): the cosine between every row and the output is
   w_i / |B w| — EQUAL AND POSITIVE by default, proportional to the preference vector otherwise —
   and the output's length is the sum of the projections of the rows on its direction *)
Theorem C17_config : forall B pref J w,
  J <> [] -> (forall g, In g J -> 0 < dotR g g) ->
  (forall x, length x = length J -> mvR (config_units RN J) (mvR B x) = x) ->
  pref_weights pref (sum_weights RN (length J)) (length J) = Ok w ->
  (forall i, (i < length J)%nat -> 0 < nth i w 0) ->
  let best := mvR B w in
  let nb := sqrt (dotR best best) in
  let u := vscaleR (1 / nb) best in
  let L := vsumR (map (fun g => dotR g u) J) in
  0 < nb /\
  dotR u u = 1 /\
  (forall i, (i < length J)%nat ->
     dotR (nth i J []) u = sqrt (dotR (nth i J []) (nth i J [])) * nth i w 0 / nb) /\
  0 < L /\
  agg_config RN B pref J = Ok (vscaleR L u) /\
  (forall i, (i < length J)%nat -> cosine (nth i J []) (vscaleR L u) = nth i w 0 / nb).
Proof. exact config_equal_cosines. Qed.
Print Assumptions C17_config.
(* Aligned-MTL (full rank): with the eigendecomposition contract, the re-balanced rows are mutually
   orthogonal and all of squared length lam_min, and A(J) is their combination with the weights *)
Theorem C17_aligned : forall n J lam Vt tol,
  let m := length J in
  wfmat n J -> J <> [] -> length lam = m -> length Vt = m -> wfmat m Vt ->
  0 <= tol -> (forall l, In l lam -> tol < l) ->
  (forall k l, (k < m)%nat -> (l < m)%nat ->
     dotR (nth k Vt []) (nth l Vt []) = if (k =? l)%nat then 1 else 0) ->
  (forall i j, (i < m)%nat -> (j < m)%nat ->
     dotR (column RN Vt i) (column RN Vt j) = if (i =? j)%nat then 1 else 0) ->
  (forall k, (k < m)%nat -> mvR (gramR J) (nth k Vt []) = vscaleR (nth k lam 0) (nth k Vt [])) ->
  let B := aligned_balance RN lam Vt tol in
  let Ghat := mmul RN n B J in
  length Ghat = m /\
  (forall i, (i < m)%nat -> nth i Ghat [] = vmR n (nth i B []) J) /\
  forall i j, (i < m)%nat -> (j < m)%nat ->
    dotR (nth i Ghat []) (nth j Ghat []) = if (i =? j)%nat then last lam 0 else 0.
Proof. exact aligned_rebalanced_rows. Qed.
Print Assumptions C17_aligned.
Theorem C17_aligned_output : forall n J lam Vt tol pref w,
  let m := length J in
  wfmat n J -> J <> [] -> length lam = m -> length Vt = m ->
  (forall l, In l lam -> tol < l) ->
  pref_weights pref (mean_weights RN m) m = Ok w ->
  let B := aligned_balance RN lam Vt tol in
  let Ghat := mmul RN n B J in
  agg_aligned RN lam Vt tol pref J = Ok (vmR n w Ghat).
Proof. exact aligned_is_combination_of_rebalanced. Qed.
Print Assumptions C17_aligned_output.
