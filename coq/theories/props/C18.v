(* C18 — MGDA, PCGrad, CAGrad, GradDrop and Random satisfy their published definitions. *)
From Coq Require Import Reals List Bool Arith Lra.
From TJ Require Import Num Linalg NumR Agg.
From TJ.proofs Require Import LinalgR QPProofs C03Proofs C18Proofs.
Import ListNotations.
Local Open Scope R_scope.

(* MGDA: for every Gramian-shaped input, every epsilon and every iteration budget, the weights are
   non-negative and sum to one (a convex combination of the rows) *)
Theorem C18_mgda_simplex : forall G eps iters, (1 <= length G)%nat ->
  length (mgda_weights RN G eps iters) = length G /\
  nonneg (mgda_weights RN G eps iters) /\ vsumR (mgda_weights RN G eps iters) = 1.
Proof. exact mgda_weights_simplex. Qed.
Print Assumptions C18_mgda_simplex.

(* Random: the softmax of ANY draw is a strictly positive convex combination *)
Theorem C18_random : forall e, e <> [] -> Forall (fun x => 0 < x) e ->
  Forall (fun x => 0 < x) (random_weights RN e) /\ vsumR (random_weights RN e) = 1 /\
  length (random_weights RN e) = length e.
Proof. exact random_weights_simplex. Qed.
Print Assumptions C18_random.

(* CAGrad: |A(J) - g0|^2 = c^2 |g0|^2 whenever the solver's g_w is above the threshold, whatever
   the solver answered; below it the zero vector *)
Theorem C18_cagrad_distance : forall n J s ne c w_opt, wfmat n J -> J <> [] ->
  length w_opt = length J -> 0 < s -> nltb RN s ne = false ->
  let m := length J in
  let g0 := vmR n (mean_weights RN m) J in
  let Gn := normalized_gramian RN (gramR J) s ne in
  nleb RN ne (sqrt (quadform RN Gn w_opt)) = true -> 0 < ne ->
  let d := vsubR (agg_cagrad RN s ne c w_opt J) g0 in
  dotR d d = c * c * dotR g0 g0.
Proof. exact cagrad_distance. Qed.
Print Assumptions C18_cagrad_distance.

Theorem C18_cagrad_stationary : forall n J s ne c w_opt, wfmat n J -> J <> [] ->
  nleb RN ne (sqrt (quadform RN (normalized_gramian RN (gramR J) s ne) w_opt)) = false ->
  agg_cagrad RN s ne c w_opt J = vzeroR n.
Proof. exact cagrad_small. Qed.
Print Assumptions C18_cagrad_stationary.

(* PCGrad: for EVERY schedule (any list of index lists), the weight-level computation of the code
   equals the vector-level definition of the paper: row i successively projected off every other
   row its CURRENT value conflicts with, summed over i *)
Theorem C18_pcgrad : forall n J perms, wfmat n J -> J <> [] -> (length perms <= length J)%nat ->
  Forall (Forall (fun j => (j < length J)%nat)) perms ->
  agg_pcgrad RN perms J = pc_outer_vec J 0 perms (vzeroR n).
Proof. exact pcgrad_spec. Qed.
Print Assumptions C18_pcgrad.

(* no conflict: projections never fire *)
Theorem C18_pcgrad_no_conflict : forall J i perm g,
  Forall (fun j => 0 <= dotR g (nth j J [])) perm -> pc_vec J i perm g = g.
Proof. exact pc_vec_no_conflict. Qed.
Print Assumptions C18_pcgrad_no_conflict.

(* GradDrop: for every draw u and every leak, a coordinate is the sum of the positive entries
   (when u < P) or of the negative entries (when P < u) of its column, plus the leaked share of
   the others *)
Theorem C18_graddrop : forall leak col u,
  let s := vsumR col in let a := vsumR (map (nabs RN) col) in
  let P := (1 / 2) * (1 + s / a) in
  0 < a ->
  (u < P -> graddrop_coord RN leak col u = masked_sum (fun x => Rltb 0 x) leak col) /\
  (P < u -> graddrop_coord RN leak col u = masked_sum (fun x => Rltb x 0) leak col).
Proof. exact graddrop_coord_cases. Qed.
Print Assumptions C18_graddrop.

(* non-vacuity: a conflicting 2-row example where the projection fires *)
Example C18_pcgrad_example :
  pc_vec [[1; 0]; [-1; 1]] 0 [1%nat] [1; 0] = [1/2; 1/2].
Proof. cbn [pc_vec Nat.eqb nth]. rn.
  assert (E : Rltb (dotR [1; 0] [-1; 1]) 0 = true) by (apply Rltb_true; cbn; lra).
  rewrite E. cbn. f_equal; [|f_equal]; lra. Qed.

(* ---- MGDA (added): Frank-Wolfe never increases the norm; never longer than the mean row ---- *)
From TJ.proofs Require Import MgdaProofs.
Theorem C18_mgda_step_decreases : forall n J alpha, wfmat n J -> simplex (length J) alpha ->
  quadform RN (gramR J) (fst (mgda_step RN (gramR J) alpha)) <= quadform RN (gramR J) alpha.
Proof. exact mgda_step_decreases. Qed.
Print Assumptions C18_mgda_step_decreases.
Theorem C18_mgda_not_longer_than_mean : forall n J eps iters, wfmat n J ->
  dotR (agg_mgda RN eps iters J) (agg_mgda RN eps iters J) <=
  dotR (agg_mean RN J) (agg_mean RN J).
Proof. exact mgda_not_longer_than_mean. Qed.
Print Assumptions C18_mgda_not_longer_than_mean.

(* ---- MGDA on two rows (added): for every epsilon and every budget >= 1 the output IS the minimum-
   norm point of the segment between the two rows ---- *)
From TJ.proofs Require Import PublishedProofs.
Theorem C18_mgda_two_rows : forall n g1 g2 eps iters, length g1 = n -> length g2 = n ->
  (1 <= iters)%nat ->
  let J := [g1; g2] in
  let x1 := vmR n (fst (mgda_step RN (gramR J) (mean_weights RN 2))) J in
  agg_mgda RN eps iters J = x1 /\
  dotR (agg_mgda RN eps iters J) (agg_mgda RN eps iters J) = dotR x1 x1 /\
  (forall t, 0 <= t <= 1 ->
     dotR x1 x1 <= dotR (vaddR (vscaleR (1 - t) g1) (vscaleR t g2))
                        (vaddR (vscaleR (1 - t) g1) (vscaleR t g2))).
Proof. exact mgda_two_rows_output. Qed.
Print Assumptions C18_mgda_two_rows.

(* ---- instance gap (added): the executed (QN) MGDA, PCGrad, GradDrop and Random models, mapped by Q2R,
   are the real models the theorems speak about ---- *)
From Coq Require Import QArith Qreals.
From TJ Require Import NumQ.
From TJ.proofs Require Import TransferProofs TransferAggProofs.
Theorem C18_executed_models_are_the_real_models :
  (forall eps iters J, agg_mgda RN (Q2R eps) iters (map (map Q2R) J) = map Q2R (agg_mgda QN eps iters J)) /\
  (forall perms J, agg_pcgrad RN perms (map (map Q2R) J) = map Q2R (agg_pcgrad QN perms J)) /\
  (forall leak U0 J, agg_graddrop RN (option_map (map Q2R) leak) (map Q2R U0) (map (map Q2R) J)
     = match agg_graddrop QN leak U0 J with Ok v => Ok (map Q2R v) | Err e => Err e end) /\
  (forall e J, agg_random RN (map Q2R e) (map (map Q2R) J) = map Q2R (agg_random QN e J)).
Proof.
  exact (conj agg_mgda_Q_to_R (conj agg_pcgrad_Q_to_R (conj agg_graddrop_Q_to_R agg_random_Q_to_R))).
Qed.
Print Assumptions C18_executed_models_are_the_real_models.
