(* C19 — NashMTL's state: reset() means fresh, weights are reused as scheduled. *)
From Coq Require Import Reals List Bool Arith.
From TJ Require Import Num Linalg NumR Nash.
From TJ.proofs Require Import LinalgR NashProofs.
Import ListNotations.

(* for every number type, every update_weights_every k, every solver (an arbitrary function of the
   problem object, the normalised Gramian and the previous weights, returning new weights and a
   new problem object: warm starts included), every history h and every suffix t:
   the outputs on t after (h ; reset) are those of a newly constructed aggregator on t *)
Theorem C19_reset_is_fresh : forall (T : Type) (N : Num T) k max_norm n_tasks
  (PS : Type) (fresh : list T -> PS) (solve : PS -> list (list T) -> list T -> list T * PS)
  (normG : list (list T) -> list (list T)) st0 h t ps,
  fst (run N k max_norm n_tasks PS fresh solve normG st0 (h ++ Reset :: t)) =
  fst (run N k max_norm n_tasks PS fresh solve normG st0 h) ++
  fst (run N k max_norm n_tasks PS fresh solve normG (mkFull (init_core N n_tasks) ps) t).
Proof. exact @reset_is_fresh. Qed.
Print Assumptions C19_reset_is_fresh.

(* the model's per-call trace IS the position-based schedule: call number s since the last reset
   invokes the solver iff s mod k = 0 and uses its answer, otherwise reuses the previous weights *)
Theorem C19_schedule : forall (T : Type) (N : Num T) k max_norm calls c,
  trace N k max_norm c calls = sched k (step c) (prvs c) calls.
Proof. intros. apply trace_is_sched. Qed.
Print Assumptions C19_schedule.

Theorem C19_recomputed_on_multiples_of_k : forall (T : Type) k (calls : list (list (list T) * list T)) s p i,
  i < length calls -> snd (nth i (sched k s p calls) ([], false)) = ((s + i) mod k =? 0).
Proof. intros. apply sched_flags. assumption. Qed.
Print Assumptions C19_recomputed_on_multiples_of_k.

(* whenever max_norm > 0 the returned vector has norm at most max_norm *)
Theorem C19_max_norm : forall n max_norm alpha J, wfmat n J -> J <> [] -> (0 < max_norm)%R ->
  (vnorm RN (combineR J (rescale RN max_norm alpha J)) <= max_norm)%R.
Proof. exact rescale_bound. Qed.
Print Assumptions C19_max_norm.

(* regression witness for defect D2: the pre-fix reuse branch raised TypeError *)
Theorem C19_v0_refuted : forall (T : Type) (N : Num T) k max_norm c J ans,
  step c mod k <> 0 -> nltb N (n0 N) max_norm = true ->
  fst (fst (step_core_v0 N k max_norm c J ans)) = Err TypeError.
Proof. intros. apply v0_reuse_branch_fails; assumption. Qed.
Print Assumptions C19_v0_refuted.
