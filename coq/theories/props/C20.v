(* C20 — a call rejected for its arguments changes nothing.  Obligations only.
   Statements hold for every number type, program, aggregator, store, and every position of the
   offending argument (they quantify over whole argument lists). *)
From Coq Require Import List Bool Arith.
From TJ Require Import Num Linalg Chunk Autojac Traverse.
From TJ.proofs Require Import AutojacBasics EntrySpec C20Proofs.
Import ListNotations.

Section C20.
Context {T : Type} (N : Num T) (P : prog T) (A : list (list T) -> res (list T)).

(* backward: WHATEVER makes the call fail — an argument check, a constructor check (duplicate
   tensors), the engine, the aggregator rejecting the Jacobian, or an input that does not expect
   a grad discovered by Accumulate — every .grad field is left untouched *)
Theorem C20_backward_atomic : forall tensors ord k retain s e s',
  backward_model N P A tensors ord k retain s = (Err e, s') -> s_grads s' = s_grads s.
Proof. exact (backward_atomic N P A). Qed.

(* only Accumulate ever writes a .grad: any run of a term without it keeps all .grad fields *)
Theorem C20_only_accumulate_writes : forall t s d r s',
  no_acc t = true -> run N P A t s d = (r, s') -> s_grads s' = s_grads s.
Proof. exact (no_acc_grads N P A). Qed.

(* mtl_backward: the argument checks as one boolean; failing them = ValueError and the store is
   literally unchanged; passing them = the pipeline is what runs *)
Theorem C20_mtl_args_rejected : forall losses features tasks shared k retain s,
  mtl_args_ok P losses features tasks shared k retain = false ->
  mtl_backward_model N P A losses features tasks shared k retain s = (Err ValueError, s).
Proof. exact (mtl_args_rejected N P A). Qed.
Theorem C20_mtl_args_accepted : forall losses features tasks shared k retain s,
  mtl_args_ok P losses features tasks shared k retain = true ->
  mtl_backward_model N P A losses features tasks shared k retain s
  = run N P A (mtl_transform losses features tasks shared k retain) s empty_dict.
Proof. exact (mtl_args_accepted N P A). Qed.
Theorem C20_backward_args_rejected : forall tensors ord k retain s,
  backward_args_ok tensors ord k retain = false ->
  backward_model N P A tensors ord k retain s = (Err ValueError, s).
Proof. exact (backward_args_rejected N P A). Qed.

(* every listed kind of invalid argument, at every position, fails the checks *)
Theorem C20_kind_chunk : forall losses features tasks shared retain,
  mtl_args_ok P losses features tasks shared (Some 0) retain = false.
Proof. exact (bad_chunk P). Qed.
Theorem C20_kind_no_features : forall losses tasks shared k retain,
  mtl_args_ok P losses [] tasks shared k retain = false.
Proof. exact (bad_no_features P). Qed.
Theorem C20_kind_no_losses : forall features tasks shared k retain,
  mtl_args_ok P [] features tasks shared k retain = false.
Proof. exact (bad_no_losses P). Qed.
Theorem C20_kind_nonscalar_loss : forall losses features tasks shared k retain l,
  In l losses -> p_shape P l <> [] -> mtl_args_ok P losses features tasks shared k retain = false.
Proof. exact (bad_nonscalar_loss P). Qed.
Theorem C20_kind_length_mismatch : forall losses features tasks shared k retain,
  length losses <> length tasks -> mtl_args_ok P losses features tasks shared k retain = false.
Proof. exact (bad_length_mismatch P). Qed.
Theorem C20_kind_overlap : forall losses features tasks shared k retain q ps,
  In ps tasks -> In q ps -> In q shared -> mtl_args_ok P losses features tasks shared k retain = false.
Proof. exact (bad_overlap P). Qed.
Theorem C20_kind_param_no_grad : forall losses features tasks shared k retain q,
  In q (shared ++ concat tasks) -> p_expects P q = false ->
  mtl_args_ok P losses features tasks shared k retain = false.
Proof. exact (bad_param_no_grad P). Qed.
Theorem C20_kind_duplicate_features : forall losses features tasks shared k retain,
  ~ NoDup features -> mtl_args_ok P losses features tasks shared k retain = false.
Proof. exact (bad_duplicate_features P). Qed.
Theorem C20_kind_duplicate_shared : forall losses features tasks shared k retain,
  ~ NoDup shared -> mtl_args_ok P losses features tasks shared k retain = false.
Proof. exact (bad_duplicate_shared P). Qed.
Theorem C20_kind_duplicate_task_params : forall losses features tasks shared k retain ps l,
  In (ps, l) (combine tasks losses) -> ~ NoDup (ps ++ features) ->
  mtl_args_ok P losses features tasks shared k retain = false.
Proof. exact (bad_duplicate_task_params P). Qed.
End C20.
Theorem C20_kind_backward_chunk : forall tensors ord retain,
  backward_args_ok tensors ord (Some 0) retain = false.
Proof. exact bad_backward_chunk. Qed.
Theorem C20_kind_backward_empty : forall ord k retain, backward_args_ok [] ord k retain = false.
Proof. exact bad_backward_empty. Qed.
Theorem C20_kind_backward_duplicates : forall tensors ord k retain,
  ~ NoDup tensors -> backward_args_ok tensors ord k retain = false.
Proof. exact bad_backward_duplicate_tensors. Qed.

Print Assumptions C20_backward_atomic.
Print Assumptions C20_only_accumulate_writes.
Print Assumptions C20_mtl_args_rejected.
Print Assumptions C20_mtl_args_accepted.
Print Assumptions C20_backward_args_rejected.
Print Assumptions C20_kind_chunk.
Print Assumptions C20_kind_no_features.
Print Assumptions C20_kind_no_losses.
Print Assumptions C20_kind_nonscalar_loss.
Print Assumptions C20_kind_length_mismatch.
Print Assumptions C20_kind_overlap.
Print Assumptions C20_kind_param_no_grad.
Print Assumptions C20_kind_duplicate_features.
Print Assumptions C20_kind_duplicate_shared.
Print Assumptions C20_kind_duplicate_task_params.
Print Assumptions C20_kind_backward_chunk.
Print Assumptions C20_kind_backward_empty.
Print Assumptions C20_kind_backward_duplicates.
