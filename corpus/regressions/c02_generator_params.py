"""D5 / C02 (and C05) witness, fixed by the 'fix:' commit recorded in known_findings.json.
shared_params / tasks_params are typed Iterable[Tensor]; a one-shot iterable (module.parameters(), a
generator expression) was consumed by the overlap check before being turned into a list, so the call
returned normally and the .grad of those parameters was never populated."""
import sys

import torch

from torchjd import mtl_backward
from torchjd.aggregation import Mean

p0 = torch.tensor([1.0, 2.0], requires_grad=True)
p1 = torch.tensor([3.0, 4.0], requires_grad=True)
p2 = torch.tensor([5.0, 6.0], requires_grad=True)
f = p0 * 2
losses = [(f * p1).sum(), (f * p2).sum()]
mtl_backward(losses, f, Mean(), tasks_params=[(p for p in [p1]), iter([p2])],
             shared_params=(p for p in [p0]))
ok = (p0.grad is not None and torch.equal(p0.grad, torch.tensor([8.0, 10.0]))
      and p1.grad is not None and torch.equal(p1.grad, torch.tensor([2.0, 4.0]))
      and p2.grad is not None and torch.equal(p2.grad, torch.tensor([2.0, 4.0])))
print("p0.grad", p0.grad, "p1.grad", p1.grad, "p2.grad", p2.grad)
sys.exit(0 if ok else 1)
