"""D6 / C08 (also C17's ConFIG clause) witness, fixed by the 'fix:' commit recorded in known_findings.json.
ConFIG took torch.linalg.pinv of the m x n matrix of unit rows, whose default tolerance is
max(m, n) * eps * sigma_max: with n the number of parameters it reaches 1 at n = 8.4e6 in float32, so
appending all-zero columns (parameters that influence nothing) changed -- and beyond 8.4e6 columns
annihilated -- the update of the other parameters."""
import sys

import torch

from torchjd.aggregation import ConFIG

J = torch.tensor([[1.0, 2.0, 0.0], [0.0, 1.0, 3.0]])
base = ConFIG()(J.double())
ok = True
for z in (2 ** 17, 2 ** 23 + 2 ** 20):
    t = torch.zeros(2, 3 + z)
    t[:, :3] = J
    out = ConFIG()(t)
    err = float((out[:3].double() - base).abs().max())
    print(f"{z} zero columns: head {out[:3].tolist()} (without them {base.tolist()}), tail max {float(out[3:].abs().max())}")
    ok = ok and err <= 1e-3 and float(out[3:].abs().max()) == 0.0
# nearly parallel rows (sigma ratio 6.7e-3, far above float32 resolution) with a preference vector
J2 = torch.tensor([[64.0, 64.0, 1.0], [64.0, 65.0, 0.0]])
pref = torch.tensor([1.0, 3.0])
base2 = ConFIG(pref_vector=pref.double())(J2.double())
t = torch.zeros(2, 3 + 2 ** 17)
t[:, :3] = J2
out2 = ConFIG(pref_vector=pref)(t)
err2 = float((out2[:3].double() - base2).abs().max() / base2.abs().max())
print(f"ill-conditioned, 2^17 zero columns: head {out2[:3].tolist()} (without them {base2.tolist()})")
ok = ok and err2 <= 1e-2
sys.exit(0 if ok else 1)
