"""D4 / C12 witness (fixed by the 'fix:' commit recorded in known_findings.json).
A feature that is ONE output of a multi-output op (unbind/chunk/split) shares its grad_fn with its
sibling outputs.  Excluding the feature's grad_fn NODE from the walk for the default tasks_params also
cut the paths that go through a sibling output, i.e. AROUND the feature: the trunk leaf x was not
found for loss1, the overlap with the default shared_params went undetected, and the call was accepted
(x.grad received only the part of the Jacobian that flows through the feature)."""
import sys

import torch

from torchjd import mtl_backward
from torchjd.aggregation import Mean

x = torch.tensor([[1.0, 2.0], [3.0, 4.0]], requires_grad=True)
a, b = (x * 2).unbind(0)          # feature = a ; b is its sibling output
p1 = torch.tensor([1.0, -1.0], requires_grad=True)
loss1 = (a * p1).sum() + b.sum()  # reaches x AROUND the feature, through b
loss2 = (a ** 2).sum()
try:
    mtl_backward([loss1, loss2], features=[a], aggregator=Mean())
except ValueError:
    print("rejected (default shared/task parameter sets overlap): property holds")
    sys.exit(0)
print("ACCEPTED although x is reached both through and around the feature; x.grad =", x.grad)
sys.exit(1)
