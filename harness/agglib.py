"""AGG-CORR: shared aggregator machinery — matrix generators, exact oracles (QP by active sets,
pinv by rank factorisation), driving the real aggregators, building Coq model calls, comparing."""
from __future__ import annotations

import itertools
import math
import random as pyrandom
from fractions import Fraction as F

import numpy as np
import torch

import common
from common import cq, cqmat, cqvec

from torchjd.aggregation import (IMTLG, MGDA, AlignedMTL, CAGrad, ConFIG, Constant, DualProj,
                                 GradDrop, Krum, Mean, PCGrad, Random, Sum, TrimmedMean, UPGrad)

DT = {"f32": torch.float32, "f64": torch.float64}


# ------------------------------------------------------------------------------------------------
# exact linear algebra over Fractions
# ------------------------------------------------------------------------------------------------
def fmat(J):
    return [[F(x) for x in r] for r in J]


def gram(J):
    return [[sum(a * b for a, b in zip(r, s)) for s in J] for r in J]


def matvec(M, x):
    return [sum(a * b for a, b in zip(r, x)) for r in M]


def vecmat(w, J, n):
    out = [F(0)] * n
    for wi, r in zip(w, J):
        for j, x in enumerate(r):
            out[j] += wi * x
    return out


def solve_exact(A, b):
    """Gaussian elimination over Fractions; returns None if singular."""
    n = len(A)
    M = [list(A[i]) + [b[i]] for i in range(n)]
    for c in range(n):
        p = next((r for r in range(c, n) if M[r][c] != 0), None)
        if p is None:
            return None
        M[c], M[p] = M[p], M[c]
        inv = 1 / M[c][c]
        M[c] = [x * inv for x in M[c]]
        for r in range(n):
            if r != c and M[r][c] != 0:
                f = M[r][c]
                M[r] = [x - f * y for x, y in zip(M[r], M[c])]
    return [M[i][n] for i in range(n)]


def qp_exact(M, u):
    """argmin v^T M v s.t. v >= u for symmetric positive definite M, by active-set enumeration."""
    m = len(u)
    for r in range(m + 1):
        for free in itertools.combinations(range(m), r):
            free = list(free)
            act = [i for i in range(m) if i not in free]
            v = [None] * m
            for i in act:
                v[i] = u[i]
            if free:
                A = [[M[i][j] for j in free] for i in free]
                b = [-sum(M[i][j] * u[j] for j in act) for i in free]
                sol = solve_exact(A, b)
                if sol is None:
                    continue
                for i, x in zip(free, sol):
                    v[i] = x
            if any(v[i] < u[i] for i in free):
                continue
            Mv = matvec(M, v)
            if any(Mv[i] < 0 for i in act):
                continue
            return v
    return None


def rref(A):
    A = [list(r) for r in A]
    rows, cols = len(A), len(A[0]) if A else 0
    piv = []
    r = 0
    for c in range(cols):
        p = next((i for i in range(r, rows) if A[i][c] != 0), None)
        if p is None:
            continue
        A[r], A[p] = A[p], A[r]
        inv = 1 / A[r][c]
        A[r] = [x * inv for x in A[r]]
        for i in range(rows):
            if i != r and A[i][c] != 0:
                f = A[i][c]
                A[i] = [x - f * y for x, y in zip(A[i], A[r])]
        piv.append(c)
        r += 1
        if r == rows:
            break
    return A, piv


def matmul(A, B):
    Bt = list(zip(*B)) if B else []
    return [[sum(a * b for a, b in zip(r, c)) for c in Bt] for r in A]


def transpose(A):
    return [list(c) for c in zip(*A)] if A else []


def inv_exact(A):
    n = len(A)
    cols = []
    for j in range(n):
        e = [F(1 if i == j else 0) for i in range(n)]
        s = solve_exact(A, e)
        if s is None:
            return None
        cols.append(s)
    return transpose(cols)


def pinv_exact(A):
    """Moore-Penrose inverse over Fractions via rank factorisation A = B C."""
    m, n = len(A), len(A[0])
    R, piv = rref(A)
    r = len(piv)
    if r == 0:
        return [[F(0)] * m for _ in range(n)]
    B = [[A[i][c] for c in piv] for i in range(m)]
    C = [R[i] for i in range(r)]
    Ct, Bt = transpose(C), transpose(B)
    CCt = inv_exact(matmul(C, Ct))
    BtB = inv_exact(matmul(Bt, B))
    return matmul(matmul(matmul(Ct, CCt), BtB), Bt)


def rank_exact(A):
    if not A or not A[0]:
        return 0
    return len(rref(A)[1])


def sigma_max(J):
    a = np.array([[float(x) for x in r] for r in J], dtype=np.float64)
    if a.size == 0:
        return F(0)
    # scale to avoid under/overflow in float64 svd
    mx = max((abs(x) for r in J for x in r), default=F(0))
    if mx == 0:
        return F(0)
    e = math.frexp(float(mx))[1] if mx < 2 ** 1000 else 1000
    sc = F(2) ** e
    a = np.array([[float(x / sc) for x in r] for r in J], dtype=np.float64)
    return F(float(np.linalg.svd(a, compute_uv=False)[0])) * sc


# ------------------------------------------------------------------------------------------------
# matrix generation
# ------------------------------------------------------------------------------------------------
CATEGORIES = ["generic", "rank_def", "conflict", "antiparallel", "dup_rows", "zero_row", "zero",
              "stationary", "tall", "one_row", "one_col", "bad_scale", "nonconflict", "dominated", "sparse_rows",
              "const_col", "few_values"]


def gen_matrix(rng: pyrandom.Random, cat=None, mmax=5, nmax=6, scale_exp=None):
    cat = cat or rng.choice(CATEGORIES)
    m = rng.randint(1, mmax)
    n = rng.randint(1, nmax)
    ri = lambda: rng.randint(-4, 4)  # noqa: E731
    if cat == "one_row":
        m = 1
    if cat == "one_col":
        n = 1
    if cat == "tall":
        n = rng.randint(1, 2)
        m = rng.randint(n + 1, max(n + 1, mmax))
    J = [[ri() for _ in range(n)] for _ in range(m)]
    if cat == "rank_def" and m >= 2 and n >= 2:
        r = rng.randint(1, min(m, n) - 1)
        A = [[ri() for _ in range(r)] for _ in range(m)]
        B = [[ri() for _ in range(n)] for _ in range(r)]
        J = [[sum(A[i][k] * B[k][j] for k in range(r)) for j in range(n)] for i in range(m)]
    elif cat == "conflict" and m >= 2:
        J[1] = [-x + rng.randint(-1, 1) for x in J[0]]
    elif cat == "antiparallel" and m >= 2:
        J[1] = [-2 * x for x in J[0]]
        if n >= 2 and rng.random() < 0.5:
            J[1][0] += 1
    elif cat == "dup_rows" and m >= 2:
        J[rng.randrange(1, m)] = list(J[0])
    elif cat == "zero_row":
        J[rng.randrange(m)] = [0] * n
    elif cat == "zero":
        J = [[0] * n for _ in range(m)]
    elif cat == "stationary" and m >= 2:
        # v^T J = 0 with v > 0: last row = -(sum of the others)
        J[-1] = [-sum(J[i][j] for i in range(m - 1)) for j in range(n)]
    elif cat == "dominated" and m >= 2:
        # a short row (roughly) aligned with a longer one: <g0,g1> >= |g0|^2
        k = rng.randint(2, 4)
        J[1] = [k * x + (rng.randint(-1, 1) if rng.random() < 0.5 else 0) for x in J[0]]
        if rng.random() < 0.5:
            J[0], J[1] = J[1], J[0]
    elif cat == "nonconflict":
        J = [[abs(x) for x in r] for r in J]
    elif cat == "sparse_rows":
        # every row has exactly ONE non-zero entry and several rows share a column with opposite signs (a
        # single-column Jacobian, or one followed by zero columns, is the extreme case): sparse, yet conflicting,
        # and the Gramian is not diagonal
        cols = [rng.randrange(max(1, (n + 1) // 2)) for _ in range(m)]
        J = [[0] * n for _ in range(m)]
        for i in range(m):
            J[i][cols[i]] = rng.choice([-4, -3, -2, -1, 1, 2, 3, 4])
        if m >= 2:
            J[1] = [0] * n
            J[1][cols[0]] = -J[0][cols[0]] * rng.choice([1, 2])       # a conflicting pair for sure
    elif cat == "const_col":
        # one column (sometimes every column: identical rows) is CONSTANT and non-zero: its maximum and its
        # minimum sit at the same index, every order statistic is tied
        cols = range(n) if rng.random() < 0.3 else [rng.randrange(n)]
        for j in cols:
            v = rng.choice([-3, -2, 2, 3, 5])
            for i in range(m):
                J[i][j] = v
    elif cat == "few_values":
        # every entry from a three-letter non-zero alphabet: columns are full of exact ties (several equal
        # entries straddling the median), which order statistics must handle without double counting
        alpha = rng.sample([-7, -3, -1, 1, 2, 5, 9], 3)
        J = [[rng.choice(alpha) for _ in range(n)] for _ in range(m)]
    elif cat == "clustered":
        # a large common component plus small deviations (workers' gradients around a common mean): the
        # pairwise distances are O(1) while the norms are O(1e4), so |a|^2 + |b|^2 - 2<a,b> cancels
        # catastrophically in float32 although every entry and every difference is exactly representable
        base = [rng.choice([-1, 1]) * 4096 * rng.randint(2, 8) for _ in range(n)]
        J = [[base[j] + J[i][j] for j in range(n)] for i in range(m)]
    J = fmat(J)
    if cat == "bad_scale":
        for i in range(m):
            e = rng.randint(-12, 12)
            J[i] = [x * F(2) ** e for x in J[i]]
    if scale_exp is None:
        scale_exp = rng.choice([0, 0, 0, -1, 1, -3, 3, -6, 5])
    sc = F(2) ** scale_exp
    J = [[x * sc for x in r] for r in J]
    return J, cat


def to_tensor(J, dt):
    m = len(J)
    n = len(J[0]) if m else 0
    t = torch.tensor([[float(x) for x in r] for r in J], dtype=torch.float64).reshape(m, n)
    return t.to(DT[dt])


def exactly_representable(J, dt):
    t = to_tensor(J, dt)
    return all(F(float(t[i, j])) == J[i][j] for i in range(len(J)) for j in range(len(J[0])))


def maxabs(J):
    return max((abs(x) for r in J for x in r), default=F(0))


# ------------------------------------------------------------------------------------------------
# implementation side
# ------------------------------------------------------------------------------------------------
_PARAM_TENSORS = []          # parameter tensors handed to the aggregator under construction


def vec_t(v, dt):
    if v is None:
        return None
    t = torch.tensor([float(x) for x in v], dtype=DT[dt])
    if len(_PARAM_TENSORS) > 64:
        del _PARAM_TENSORS[:]
    _PARAM_TENSORS.append((t, t.clone()))
    return t


def make_aggregator(name, p, dt, pref_dt=None):
    if name == "Mean":
        return Mean()
    if name == "Sum":
        return Sum()
    if name == "Constant":
        return Constant(vec_t(p["weights"], dt))
    if name == "Random":
        return Random()
    if name == "UPGrad":
        return UPGrad(pref_vector=vec_t(p.get("pref"), pref_dt or dt), norm_eps=float(p["norm_eps"]),
                      reg_eps=float(p["reg_eps"]))
    if name == "DualProj":
        return DualProj(pref_vector=vec_t(p.get("pref"), pref_dt or dt), norm_eps=float(p["norm_eps"]),
                        reg_eps=float(p["reg_eps"]))
    if name == "MGDA":
        return MGDA(epsilon=float(p["epsilon"]), max_iters=int(p["max_iters"]))
    if name == "PCGrad":
        return PCGrad()
    if name == "GradDrop":
        return GradDrop(leak=vec_t(p.get("leak"), pref_dt or dt))
    if name == "TrimmedMean":
        return TrimmedMean(trim_number=int(p["b"]))
    if name == "Krum":
        return Krum(n_byzantine=int(p["f"]), n_selected=int(p["k"]))
    if name == "IMTLG":
        return IMTLG()
    if name == "ConFIG":
        return ConFIG(pref_vector=vec_t(p.get("pref"), dt))
    if name == "CAGrad":
        return CAGrad(c=float(p["c"]), norm_eps=float(p["norm_eps"]))
    if name == "AlignedMTL":
        return AlignedMTL(pref_vector=vec_t(p.get("pref"), dt))
    raise KeyError(name)


# An aggregator is stateless (C11) and a caller may keep ONE instance for a whole training run and
# refill ONE pre-allocated Jacobian buffer: the checks do exactly that.  Instances are reused for equal
# (name, parameters, dtype), matrices of equal shape and dtype are copied into the same tensor object,
# and the parameter tensors given at construction must come back unmodified from every call.  On a
# stateless implementation this is indistinguishable from fresh instances and fresh tensors.
REUSE = True
_INSTANCES = {}
_BUFFERS = {}


def _pkey(p):
    return repr(sorted((k, repr(jsonable(v)) if isinstance(v, (list, tuple)) else repr(v))
                       for k, v in (p or {}).items()))


def get_instance(name, p, dt):
    key = (name, _pkey(p), dt)
    if REUSE and key in _INSTANCES:
        return _INSTANCES[key]
    del _PARAM_TENSORS[:]
    pref_dt = None
    if name in ("UPGrad", "DualProj") and (p or {}).get("pref") is not None:
        # UPGrad / DualProj accept a preference vector of the OTHER float dtype than the matrix (the QP runs in
        # float64 either way): every third parameter set is built that way
        import zlib
        if zlib.crc32(key[1].encode()) % 3 == 0:
            pref_dt = "f32" if dt == "f64" else "f64"
    inst = make_aggregator(name, p, dt, pref_dt)
    entry = (inst, list(_PARAM_TENSORS))
    if REUSE:
        if len(_INSTANCES) > 20000:
            _INSTANCES.clear()
        _INSTANCES[key] = entry
    return entry


def get_buffer(J, dt):
    src = to_tensor(J, dt)
    if not REUSE:
        return src
    key = (tuple(src.shape), dt)
    buf = _BUFFERS.get(key)
    if buf is None:
        if len(_BUFFERS) > 2000:
            _BUFFERS.clear()
        buf = _BUFFERS[key] = torch.empty_like(src)
    buf.copy_(src)
    return buf


_CALLS = [0]


def impl_call(name, p, J, dt, seed=None, weighting=False, tensor=None):
    """Returns ("ok", [floats]) or ("err", class name).  Never raises."""
    try:
        A, params = get_instance(name, p, dt)
        t = get_buffer(J, dt) if tensor is None else tensor
        _CALLS[0] += 1
        if tensor is None and REUSE and _CALLS[0] % 2 == 0 and len(J) and len(J[0]):
            # PRIMING: every second call is preceded by a call of the same instance on the SAME tensor object
            # holding different content (rows and columns reversed), then the buffer is refilled in place.
            # Anything remembered across calls -- on the instance, the class or the module; keyed by tensor
            # identity, id(), shape, dtype or "closeness" -- makes the real call answer for the wrong matrix.
            try:
                t.copy_(to_tensor([list(reversed(r)) for r in reversed(J)], dt))
                (A.weighting(t) if weighting else A(t))
            except Exception:  # noqa: BLE001
                pass
            t.copy_(to_tensor(J, dt))
        if seed is not None:
            torch.manual_seed(seed)
        out = A.weighting(t) if weighting else A(t)
        res = ("ok", [float(x) for x in out.to(torch.float64).reshape(-1)], out.dtype, tuple(out.shape))
        if not bool(torch.isfinite(out).all()) and bool(torch.isfinite(t).all()):
            # comparisons with nan are all False: a non-finite answer to a finite matrix must never
            # slip through an oracle as "no deviation found" (aggregators are total on finite input)
            return ("err", "NonFiniteOutputOnFiniteMatrix", None, None)
        for cur, orig in params:
            if cur.shape != orig.shape or not torch.equal(cur, orig):
                return ("err", "ParameterTensorModifiedByCall", None, None)
        return res
    except Exception as e:  # noqa: BLE001
        return ("err", type(e).__name__, None, None)


# ------------------------------------------------------------------------------------------------
# model side: Coq expressions (Q instance) with harness-computed oracles
# ------------------------------------------------------------------------------------------------
def popt(v):
    return "None" if v is None else f"(Some {cqvec(v)})"


def qp_table_expr(table):
    """A Coq function mat -> vec -> vec answering the QP oracle from a finite table keyed by u
    (the matrix argument is the same for all entries of one case)."""
    e = "(fun (_ : list (list Q)) (u : list Q) => "
    for u, w in table:
        e += f"if forallb2q u {cqvec(u)} then {cqvec(w)} else "
    e += "[])"
    return e


MODEL_PRELUDE = """From TJ Require Import Agg.
Fixpoint forallb2q (a b : list Q) : bool :=
  match a, b with
  | x :: a', y :: b' => Qeq_bool x y && forallb2q a' b'
  | [], [] => true
  | _, _ => false
  end.
Definition rout (r : res (list Q)) : res (list (Z * Z)) :=
  match r with Ok v => Ok (vout v) | Err e => Err e end.
"""


class Skip(Exception):
    pass


def reg_norm_gramian(G, s, norm_eps, reg_eps):
    m = len(G)
    if s < norm_eps:
        Gn = [[F(0)] * m for _ in range(m)]
    else:
        Gn = [[x / (s * s) for x in r] for r in G]
    return [[Gn[i][j] + (reg_eps if i == j else 0) for j in range(m)] for i in range(m)]


def round_dyadic(x, bits):
    return F(round(x * 2 ** bits), 2 ** bits)


def near(a, b, rel=1e-6):
    return abs(a - b) <= rel * max(abs(a), abs(b))


def model_expr(name, p, J, oracles=None):
    """Coq expression of type res (list (Z*Z)) for the aggregation of J; fills `oracles` (dict)
    with the harness-computed kernel answers it used.  Raises Skip for cases excluded by the
    property's quantifier (near ties / ambiguous rank / s ~ norm_eps)."""
    o = oracles if oracles is not None else {}
    m = len(J)
    Jq = cqmat(J)
    if name == "Mean":
        return f"(Ok (vout (agg_mean QN {Jq})))"
    if name == "Sum":
        return f"(Ok (vout (agg_sum QN {Jq})))"
    if name == "Constant":
        return f"(rout (agg_constant QN {cqvec(p['weights'])} {Jq}))"
    if name in ("UPGrad", "DualProj"):
        s = sigma_max(J)
        ne, re_ = F(p["norm_eps"]), F(p["reg_eps"])
        if s != 0 and near(s, ne, 1e-6):
            raise Skip("s~norm_eps")
        pref = p.get("pref")
        if pref is not None and len(pref) != m:
            u = None
        else:
            u = pref if pref is not None else [F(1, m)] * m
        table = []
        if u is not None:
            M = reg_norm_gramian(gram(J), s, ne, re_)
            if name == "DualProj":
                us = [list(u)]
            else:
                us = [[u[i] if k == i else F(0) for k in range(m)] for i in range(m)]
            for uu in us:
                w = qp_exact(M, uu)
                if w is None:
                    raise Skip("qp")
                table.append((uu, w))
        o["s"] = s
        o["qp"] = table
        fn = "agg_upgrad" if name == "UPGrad" else "agg_dualproj"
        # the model run gets the oracle answers rounded to dyadic rationals (2^-140): exact sums of
        # several QP solutions have denominators of thousands of bits, which vm_compute's gcd
        # cannot reduce in reasonable time; the exact answers are kept for the KKT certificates
        rtable = [(uu, [round_dyadic(x, 140) for x in w]) for uu, w in table]
        return (f"(rout ({fn} QN {qp_table_expr(rtable)} {popt(pref)} {cq(s)} {cq(ne)} {cq(re_)} {Jq}))")
    if name == "MGDA":
        return f"(Ok (vout (agg_mgda QN {cq(F(p['epsilon']))} {int(p['max_iters'])}%nat {Jq})))"
    if name == "TrimmedMean":
        return f"(rout (agg_trimmed_mean QN {int(p['b'])}%nat {Jq}))"
    if name == "Krum":
        return f"(rout (agg_krum QN {int(p['f'])}%nat {int(p['k'])}%nat {Jq}))"
    if name == "IMTLG":
        G = gram(J)
        P = pinv_exact(G) if m else []
        o["pinv"] = P
        return f"(Ok (vout (agg_imtlg QN {cqmat(P)} {cq(F(1, 10**12))} {Jq})))"
    if name == "ConFIG":
        a = np.array([[float(x) for x in r] for r in J], dtype=np.float64)
        mx = float(maxabs(J))
        if mx > 0:
            a = a / mx
        nr = np.linalg.norm(a, axis=1, keepdims=True)
        with np.errstate(all="ignore"):
            units = np.nan_to_num(a / nr, nan=0.0)
        B = np.linalg.pinv(units)
        Bq = [[F(float(x)) for x in r] for r in B]
        o["pinv_units"] = Bq
        return f"(rout (agg_config QN {cqmat(Bq)} {popt(p.get('pref'))} {Jq}))"
    if name == "CAGrad":
        s = sigma_max(J)
        ne = F(p["norm_eps"])
        if s != 0 and near(s, ne, 1e-6):
            raise Skip("s~norm_eps")
        w_opt = cagrad_wopt(J, s, ne, float(p["c"]))
        o["s"], o["w_opt"] = s, w_opt
        return f"(Ok (vout (agg_cagrad QN {cq(s)} {cq(ne)} {cq(F(p['c']))} {cqvec(w_opt)} {Jq})))"
    if name == "AlignedMTL":
        lam, Vt, tol = aligned_eigh(J)
        o["lam"] = lam
        return (f"(rout (agg_aligned QN {cqvec(lam)} {cqmat(Vt)} {cq(tol)} {popt(p.get('pref'))} {Jq}))")
    raise KeyError(name)


def aligned_eigh(J, eps=float(torch.finfo(torch.float32).eps)):
    """eigh oracle for Aligned-MTL: eigenvalues (descending) and eigenvectors (rows) of J J^T,
    tol = max(lam) * m * finfo().eps (torch.finfo() = default dtype float32 in the code)."""
    m = len(J)
    mx = maxabs(J)
    sc = F(1)
    if mx > 0:
        sc = F(2) ** (math.frexp(float(mx))[1] if mx < F(2) ** 1000 else 1000)
    a = np.array([[float(x / sc) for x in r] for r in J], dtype=np.float64)
    lam, V = np.linalg.eigh(a @ a.T)
    order = np.argsort(-lam)
    lam = lam[order]
    V = V[:, order]
    lamq = [F(float(x)) * sc * sc for x in lam]
    Vt = [[F(float(V[i, k])) for i in range(m)] for k in range(m)]
    tol = (max(lamq) if lamq else F(0)) * m * F(eps)
    # ambiguous rank: an eigenvalue within a factor 100 of tol (either side)
    for l in lamq:
        if tol > 0 and F(1, 1000) < (abs(l) / tol) < 1000:
            raise Skip("ambiguous rank")
    return lamq, Vt, tol


def cagrad_wopt(J, s, ne, c):
    """independent solve of CAGrad's program on the exactly normalised Gramian"""
    import cvxpy as cp
    m = len(J)
    G = gram(J)
    if s < ne:
        Gn = np.zeros((m, m))
    else:
        Gn = np.array([[float(x / (s * s)) for x in r] for r in G], dtype=np.float64)
    lam, V = np.linalg.eigh(Gn)
    lam = np.clip(lam, 0, None)
    R = V @ np.diag(np.sqrt(lam))          # R R^T = Gn
    g0 = R.T @ np.ones(m) / m
    sqrt_phi = c * np.linalg.norm(g0)
    w = cp.Variable(m)
    cost = (R @ g0).T @ w + sqrt_phi * cp.norm(R.T @ w, 2)
    prob = cp.Problem(cp.Minimize(cost), [w >= 0, cp.sum(w) == 1])
    prob.solve(cp.CLARABEL)
    if w.value is None:
        raise Skip("cagrad solver")
    return [F(float(x)) for x in w.value]


# ------------------------------------------------------------------------------------------------
# batch evaluation of model expressions
# ------------------------------------------------------------------------------------------------
def eval_model(exprs, tag, per_file=150):
    """exprs: list of Coq expressions of type res (list (Z*Z)).  Returns list of
    ("ok", [Fraction]) | ("err", class)."""
    files = []
    for k in range(0, len(exprs), per_file):
        body = common.CASES_HEADER + MODEL_PRELUDE
        for e in exprs[k:k + per_file]:
            body += f"Eval vm_compute in {e}.\n"
        files.append((f"agg{k // per_file}", body))
    outs = common.coq_run_files(files, tag)
    res = []
    for o in outs:
        for v in common.parse_coq_values(o):
            if isinstance(v, tuple) and v[0] == "Ok":
                res.append(("ok", common.frvec(v[1])))
            elif isinstance(v, tuple) and v[0] == "Err":
                res.append(("err", v[1]))
            else:
                raise ValueError(f"unexpected model value {v!r}")
    if len(res) != len(exprs):
        raise RuntimeError(f"model returned {len(res)} values for {len(exprs)} cases")
    return res


def tol_for(name, dt):
    if name in ("Krum", "TrimmedMean", "Mean", "Sum", "Constant"):
        # selections and fixed-weight averages are exact up to a few ulps of the largest entry; a generic
        # tolerance hides the choice of a different row among rows that lie close together
        return {"f64": 1e-12, "f32": 2e-6}[dt]
    base = {"f64": 1e-7, "f32": 3e-3}[dt]
    if name == "CAGrad":
        base = max(base, 2e-4)
    return base


def compare(name, dt, J, impl, model, scale=None):
    """None if they agree, else a message."""
    if impl[0] == "err" or model[0] == "err":
        if impl[0] == "err" and model[0] == "err":
            return None if impl[1] == model[1] else f"exception class {impl[1]} vs model {model[1]}"
        return f"implementation {impl[:2]} vs model {model[0]} {model[1] if model[0]=='err' else ''}"
    a, b = impl[1], model[1]
    if len(a) != len(b):
        return f"length {len(a)} vs model {len(b)}"
    if not all(math.isfinite(x) for x in a):
        return f"non-finite output {a}"
    sel = name in ("Krum", "TrimmedMean", "Mean", "Sum", "Constant")
    # selections / fixed-weight averages: a few ulps of the LARGEST ENTRY (not m times it), or of the result
    sc = scale if scale is not None else float(maxabs(J)) * (1 if sel else max(1, len(J)))
    sc = max(sc, max((abs(float(x)) for x in b), default=0.0))
    tol = tol_for(name, dt)
    worst = max((abs(x - float(y)) for x, y in zip(a, b)), default=0.0)
    if worst > tol * sc and worst > 0:
        return f"output differs from model by {worst:.3e} (scale {sc:.3e}, tol {tol})"
    return None


# ------------------------------------------------------------------------------------------------
# parameter generation
# ------------------------------------------------------------------------------------------------
EPS_CHOICES = [F(1, 10**2), F(1, 10**4), F(1, 10**6), F(1, 10**8)]


def gen_pref(rng, m, positive=False):
    r = rng.random()
    if r < 0.35:
        return None
    if r < 0.5 and not positive:
        v = [F(0)] * m
        v[rng.randrange(m)] = F(rng.randint(1, 4), 4)
        return v
    lo = 1 if positive else 0
    return [F(rng.randint(lo, 8), 8) for _ in range(m)]


def gen_params(rng, name, m):
    if name in ("Mean", "Sum", "Random", "PCGrad", "IMTLG"):
        return {}
    if name == "Constant":
        return {"weights": [F(rng.randint(-6, 8), 4) for _ in range(m)]}
    if name in ("UPGrad", "DualProj"):
        ne = rng.choice(EPS_CHOICES)
        re_ = rng.choice([e for e in EPS_CHOICES if e != ne])
        return {"pref": gen_pref(rng, m), "norm_eps": ne, "reg_eps": re_}
    if name == "MGDA":
        return {"epsilon": rng.choice([F(1, 1000), F(0), F(1, 10)]),
                "max_iters": rng.choice([0, 1, 2, 3, 5, 8])}
    if name == "GradDrop":
        return {"leak": None if rng.random() < 0.4 else [F(rng.randint(0, 4), 4) for _ in range(m)]}
    if name == "TrimmedMean":
        return {"b": rng.randint(0, max(0, (m - 1) // 2))}
    if name == "Krum":
        f = rng.randint(0, max(0, m - 3))
        return {"f": f, "k": rng.randint(1, max(1, m))}
    if name in ("ConFIG", "AlignedMTL"):
        return {"pref": gen_pref(rng, m, positive=(name == "ConFIG"))}
    if name == "CAGrad":
        return {"c": rng.choice([F(0), F(1, 2), F(1), F(2)]), "norm_eps": rng.choice(EPS_CHOICES)}
    raise KeyError(name)


def jsonable(x):
    if isinstance(x, F):
        return str(x)
    if isinstance(x, dict):
        return {k: jsonable(v) for k, v in x.items()}
    if isinstance(x, (list, tuple)):
        return [jsonable(v) for v in x]
    return x


def unjson(x):
    if isinstance(x, str):
        try:
            return F(x)
        except ValueError:
            return x
    if isinstance(x, dict):
        return {k: unjson(v) for k, v in x.items()}
    if isinstance(x, list):
        return [unjson(v) for v in x]
    return x


def mgda_has_tie(J, epsilon, max_iters, rel=1e-9):
    """exact-tie detection for MGDA (the 'no exact ties' proviso): replays Frank-Wolfe in float64
    and reports whether some argmin is (numerically) not unique"""
    G = np.array([[float(x) for x in r] for r in gram(J)], dtype=np.float64)
    m = len(J)
    alpha = np.ones(m) / m
    for _ in range(min(int(max_iters), 200)):
        ga = G @ alpha
        srt = np.sort(ga)
        if m >= 2 and (srt[1] - srt[0]) <= rel * max(np.max(np.abs(ga)), 1e-300):
            return True
        t = int(np.argmin(ga))
        e = np.zeros(m)
        e[t] = 1.0
        a, b, c = alpha @ (G @ e), alpha @ ga, e @ (G @ e)
        sc = max(abs(a), abs(b), abs(c), 1e-300)
        # the branch conditions c <= a, b <= a are discrete decisions too
        if abs(c - a) <= rel * sc or abs(b - a) <= rel * sc:
            return True
        if c <= a:
            gamma = 1.0
        elif b <= a:
            gamma = 0.0
        else:
            gamma = (b - a) / (b + c - 2 * a)
        # ... and so is the stopping test gamma < epsilon
        if abs(gamma - float(epsilon)) <= rel * max(gamma, float(epsilon), 1e-300):
            return True
        alpha = (1 - gamma) * alpha + gamma * e
        if gamma < float(epsilon):
            break
    return False


def minnorm_exact(G):
    """min alpha^T G alpha over the simplex, exactly (support enumeration); returns the value"""
    m = len(G)
    best = None
    for r in range(1, m + 1):
        for S in itertools.combinations(range(m), r):
            # [G_SS -1; 1^T 0] [a; lam] = [0; 1]
            K = [[G[i][j] for j in S] + [F(-1)] for i in S] + [[F(1)] * r + [F(0)]]
            sol = solve_exact(K, [F(0)] * r + [F(1)])
            if sol is None:
                continue
            a, lam = sol[:r], sol[r]
            if any(x < 0 for x in a):
                continue
            alpha = [F(0)] * m
            for i, x in zip(S, a):
                alpha[i] = x
            Ga = matvec(G, alpha)
            if all(Ga[j] >= lam for j in range(m)):
                return lam          # = alpha^T G alpha
            if best is None or lam < best:
                pass
    # fallback: vertices
    return min(G[i][i] for i in range(m))


