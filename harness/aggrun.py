"""AGG-CORR runner: generate (aggregator, params, matrix) cases, run model and implementation,
report disagreements.  Used by the aggregator properties C03, C04, C08-C11, C16-C18."""
from __future__ import annotations

import random as pyrandom
from fractions import Fraction as F

import agglib as A

DETERMINISTIC = ["Mean", "Sum", "Constant", "UPGrad", "DualProj", "MGDA", "TrimmedMean", "Krum",
                 "IMTLG", "ConFIG", "CAGrad", "AlignedMTL"]


def rows_ok(name, p, m):
    if name == "Krum":
        return m >= p["f"] + 3 and m >= p["k"]
    if name == "TrimmedMean":
        return m >= 2 * p["b"] + 1
    return True


def rescale_to_boundary(rng, J, ne):
    """rescale J by a power of two so that sigma_max lands just above / just below norm_eps"""
    s = A.sigma_max(J)
    if s == 0:
        return J
    import math
    if rng.random() < 0.35:
        # EVERY ENTRY below norm_eps while sigma_max (up to sqrt(m n) times the largest entry) is above it: the
        # branch is decided by sigma_max, not by the size of the entries
        mx = float(A.maxabs(J))
        e = math.floor(math.log2(float(ne) * 0.99 / mx))
        if float(s) * 2.0 ** e >= 1.05 * float(ne):
            return [[x * F(2) ** e for x in r] for r in J]
    above = rng.random() < 0.7
    target = float(ne) * (rng.uniform(1.5, 60) if above else 1 / rng.uniform(1.5, 60))
    import math
    e = round(math.log2(target / float(s)))
    sc = F(2) ** e
    return [[x * sc for x in r] for r in J]


def well_conditioned(J, name, p=None):
    """the quantifiers of the pinv/eigh/solver based aggregators: unambiguous numerical rank, and
    not on (or within float resolution of) a point where the aggregator is discontinuous"""
    import numpy as np
    if name == "CAGrad":
        # at stationarity (0 in the hull of the rows) g_w ~ 0: the branch |g_w| >= norm_eps and the
        # direction g_w/|g_w| are decided by solver residuals
        s = A.sigma_max(J)
        if s == 0:
            return True
        return A.minnorm_exact(A.gram(J)) / (s * s) >= F(1, 10 ** 6)
    if name == "MGDA":
        # Frank-Wolfe takes discrete decisions (argmin vertex, branch of gamma, stopping test): inputs
        # on which one of them is decided by less than float resolution are outside the tie-free
        # quantifier (found by the thorough run with seed 11: an exact argmin tie at the mean start,
        # broken differently by float32); 1e-4 relative covers float32
        pp = p or {}
        return not A.mgda_has_tie(J, pp.get("epsilon", F(1, 1000)), pp.get("max_iters", 100), rel=1e-4)
    if name not in ("IMTLG", "ConFIG", "AlignedMTL"):
        return True
    mx = A.maxabs(J)
    if mx == 0:
        return True
    a = np.array([[float(x / mx) for x in r] for r in J], dtype=np.float64)
    if name == "ConFIG":
        nr = np.linalg.norm(a, axis=1, keepdims=True)
        with np.errstate(all="ignore"):
            a = np.nan_to_num(a / nr, nan=0.0)
    sv = np.linalg.svd(a, compute_uv=False)
    if sv[0] == 0:
        return True
    if name == "ConFIG":
        # best_direction = pinv(units) @ weights; the code branches on its norm being EXACTLY 0
        w = np.array([float(x) for x in ((p or {}).get("pref") or [1] * len(J))])
        if len(w) == len(J):
            best = np.linalg.pinv(a) @ w
            if np.linalg.norm(best) < 1e-6 * np.linalg.norm(w):
                return False
    if name == "IMTLG":
        # weights = v / sum(v) has a pole at sum(v) = 0: inputs on (or within float resolution of)
        # the pole are ill-conditioned -- e.g. exactly antiparallel rows give v = 0 exactly and the
        # float32 code normalises rounding noise.  Outside the "numerically unambiguous" quantifier.
        import math
        G = A.gram(J)
        P = A.pinv_exact(G)
        d = [math.sqrt(float(G[i][i])) for i in range(len(J))]
        v = [sum(float(P[i][j]) * d[j] for j in range(len(J))) for i in range(len(J))]
        if abs(sum(v)) < 1e-3 * sum(abs(x) for x in v) or sum(abs(x) for x in v) * sum(d) < 1e-6:
            return False
    rel = sv / sv[0]
    # every singular value is either clearly non-zero or exactly (numerically) zero
    return all(r > 1e-3 or r < 1e-13 for r in rel)


def gen_case(rng, name, mmax=5, nmax=6, cat=None, boundary=True):
    for attempt in range(400):
        J, cat_ = A.gen_matrix(rng, cat=(cat if attempt < 40 else None), mmax=mmax, nmax=nmax)
        m = len(J)
        p = A.gen_params(rng, name, m)
        if not rows_ok(name, p, m):
            continue
        if name in ("UPGrad", "DualProj", "CAGrad") and boundary and rng.random() < 0.3:
            J = rescale_to_boundary(rng, J, p["norm_eps"])
            cat_ += "+boundary"
        if not well_conditioned(J, name, p):
            continue
        if not (A.exactly_representable(J, "f32")):
            continue
        return {"name": name, "params": p, "J": J, "cat": cat_}
    raise RuntimeError("could not generate a case for " + name)


def sibling(c):
    """a case with the same aggregator, parameters, shape, scale and singular values but different
    content (rows and columns reversed), to be evaluated RIGHT AFTER c on the same reused instance
    and the same reused buffer: anything remembered from the previous call (keyed on shape, tensor
    identity, closeness of tiny Gramians, ...) shows up as a wrong answer here.  Row-indexed parameters
    are reversed alongside, so that the sibling is the same problem up to relabelling."""
    J2 = [list(reversed(r)) for r in reversed(c["J"])]
    if J2 == c["J"]:
        return None
    p2 = dict(c["params"])
    for k in ("pref", "weights", "leak"):
        if p2.get(k) is not None:
            p2[k] = list(p2[k])            # same values, NOT reversed: same instance key
    return {"name": c["name"], "params": p2, "J": J2, "cat": c["cat"] + "+sibling"}


def presibling(c):
    """for a replay: the case that was evaluated right before a '+sibling' case (None otherwise)"""
    if not c.get("cat", "").endswith("+sibling"):
        return None
    return {"name": c["name"], "params": dict(c["params"]),
            "J": [list(reversed(r)) for r in reversed(c["J"])], "cat": c["cat"][: -len("+sibling")]}


# global scales at which an aggregator built on the NORMALISED Gramian (UPGrad, DualProj: SVD of J, no J J^T in
# the input dtype) resp. on the raw Gramian (MGDA) still has all its intermediates inside the dtype's range
EXTREME = {"UPGrad": {"f32": (70, -80), "f64": (520, -600)}, "DualProj": {"f32": (70, -80), "f64": (520, -600)},
           "MGDA": {"f32": (40, -40), "f64": (300, -300)}}
TINY_NORM_EPS = {"f32": F(1, 10 ** 30), "f64": F(1, 10 ** 250)}


def extreme_scales(chk, found, c, tol, pid, dts=("f64", "f32")):
    """A(2^e J) = 2^e A(J) at the ends of the dtype's range (norm_eps chosen below sigma_max on both sides):
    positive homogeneity is part of C11 and the c1 = c2 case of C09; for C03 / C04 / C18 it moves the
    defining equations to scales where a mathematically identical rewrite (J J^T formed in the input
    dtype, a norm that squares its argument, ...) overflows or underflows.  Power-of-two factors are
    exact in floating point, so the two answers must agree to rounding."""
    name, J = c["name"], c["J"]
    ok = True
    for dt, (up, down) in EXTREME[name].items():
        if dt not in dts:
            continue
        p2 = dict(c["params"])
        if "norm_eps" in p2:
            p2["norm_eps"] = TINY_NORM_EPS[dt]
        if name == "MGDA":
            p2["max_iters"] = min(int(p2.get("max_iters", 100)), 20)
        base = A.impl_call(name, p2, J, dt)
        smax = float(A.sigma_max(J))
        nz = [abs(float(x)) for r in J for x in r if x != 0]
        lim = {"f32": 100, "f64": 900}[dt]
        for e in (up, down):
            import math
            # the claim needs sigma_max above norm_eps on BOTH sides and every entry a normal number of the
            # dtype with room for the squares taken by an SVD: matrices that were already rescaled to the
            # norm_eps boundary or to extreme scales are not moved further (thorough run, seed 12)
            if not nz or math.log2(max(nz)) + e > lim or math.log2(min(nz)) + e < -lim or \
                    ("norm_eps" in p2 and smax * 2.0 ** e < 1e3 * float(p2["norm_eps"])):
                chk.note("extreme_scale_skipped_out_of_range")
                continue
            Js = [[x * F(2) ** e for x in r] for r in J]
            o = A.impl_call(name, p2, Js, dt)
            chk.cov["evaluations"] = chk.cov.get("evaluations", 0) + 1
            bad = None
            if base[0] != "ok":
                bad = f"{name} raised {base[1]} on a finite matrix"
            elif o[0] != "ok":
                bad = f"{name} raised {o[1]} on the finite matrix 2^{e} J ({dt})"
            else:
                sc = max(max(abs(x) for x in base[1]), float(A.maxabs(J)) * 1e-3, 1e-300)
                err = max(abs(x / 2.0 ** e - y) for x, y in zip(o[1], base[1]))
                if not err <= tol[dt] * sc:
                    bad = (f"{name}: A(2^{e} J) / 2^{e} differs from A(J) by {err / sc:.3e} relative ({dt}; "
                           f"sigma_max stays above norm_eps on both sides)")
            if bad:
                rep = case_json(c, dt)
                rep.update({"kind": "extreme_scale", "e": e, "params": A.jsonable(p2)})
                chk.violation(f"{pid} {bad}", rep)
                found.add((name, A.jsonable(J).__repr__(), dt))
                ok = False
                break
    return ok


def exact_boundary_cases():
    """matrices of rank one in their columns (J = v e_j^T), whose largest singular value |v| is an integer and is
    returned EXACTLY by the SVD, with norm_eps equal to it: the statement's `s >= norm_eps` includes equality.
    Yields (J, norm_eps, s) with exact Fractions, at three power-of-two scales."""
    base = [([[3, 0], [-4, 0]], 5), ([[0, 6], [0, -8]], 10), ([[3, 0, 0], [-4, 0, 0]], 5),
            ([[0, 5, 0], [0, -12, 0]], 13), ([[1, 0], [-2, 0], [2, 0]], 3), ([[8, 0], [-15, 0]], 17)]
    for J, s in base:
        for e in (0, -12, 5):
            sc = F(2) ** e
            yield [[F(x) * sc for x in r] for r in J], F(s) * sc, F(s) * sc


def exact_boundary(chk, found, names, pid, judge):
    """runs `judge(c, dt, s)` on every exact-boundary case for which the implementation's own SVD returns
    sigma_max == norm_eps exactly (checked, counted otherwise); s is passed as the exact rational"""
    import torch
    n_run = 0
    for J, ne, s in exact_boundary_cases():
        for dt in ("f64", "f32"):
            t = A.to_tensor(J, dt)
            if float(torch.linalg.svdvals(t)[0]) != float(s) or float(torch.svd(t)[1][0]) != float(s):
                chk.note("exact_boundary_svd_not_exact")
                continue
            for name in names:
                for pref in (None, [F(1, 4), F(3, 4), F(1, 2)][:len(J)]):
                    p = {"pref": pref, "norm_eps": ne, "reg_eps": F(1, 10 ** 4)}
                    c = {"name": name, "params": p, "J": J, "cat": "exact_boundary_s_eq_norm_eps"}
                    judge(c, dt, s)
                    n_run += 1
    chk.notes["exact_boundary_cases"] = n_run


def dtypes_for(c):
    """float32 is used only where reg_eps dominates the float32 rounding error of the normalised
    Gramian (reg_eps's documented purpose is to keep the QP matrix positive definite in spite of
    rounding; below ~1e-5 in float32 quadprog may legitimately report a non-PD matrix)."""
    p = c["params"]
    if c["name"] in ("UPGrad", "DualProj") and F(p["reg_eps"]) < F(1, 10**4):
        return ("f64",)
    if c["name"] in ("IMTLG", "ConFIG", "AlignedMTL") and gram_cond(c["J"], c["name"]) > 100.0:
        # IMTL-G, Aligned-MTL and (since fix 1324386) ConFIG decide on the m x m GRAMIAN: their float32
        # accuracy is cond^2 * eps (6e-4 at cond 100, 6e-2 at cond 1e3).  "Bounded condition number" is
        # read per dtype: float32 up to 100, float64 up to 1e3
        return ("f64",)
    return ("f64", "f32")


def gram_cond(J, name):
    """condition number of the rows (of the UNIT rows for ConFIG) restricted to the non-zero singular values"""
    import numpy as np
    a = np.array([[float(x) for x in r] for r in J], dtype=np.float64)
    if name == "ConFIG":
        nr = np.linalg.norm(a, axis=1, keepdims=True)
        a = np.where(nr > 0, a / np.where(nr > 0, nr, 1.0), 0.0)
    sv = np.linalg.svd(a, compute_uv=False)
    if sv.size == 0 or sv[0] == 0:
        return 1.0
    nzv = sv[sv > 1e-12 * sv[0]]
    return float(nzv[0] / nzv[-1])


def run_corr(chk, cases, tag, dts=None):
    """cases: list of dicts(name, params, J).  Evaluates the model (Coq, Q instance) and the
    implementation, compares; returns list of (case, dt, msg, impl, model) disagreements and
    stores case['model'] for use by direct oracles."""
    exprs, kept = [], []
    for c in cases:
        try:
            c["oracles"] = {}
            e = A.model_expr(c["name"], c["params"], c["J"], c["oracles"])
        except A.Skip as s:
            chk.note("skipped_" + str(s).replace(" ", "_"))
            continue
        exprs.append(e)
        kept.append(c)
    res = A.eval_model(exprs, tag, per_file=20) if exprs else []
    dis = []
    for c, mr in zip(kept, res):
        c["model"] = mr
        for dt in (dts or dtypes_for(c)):
            ir = A.impl_call(c["name"], c["params"], c["J"], dt)
            c.setdefault("impl", {})[dt] = ir
            msg = A.compare(c["name"], dt, c["J"], ir, mr)
            chk.cov["traces_validated_against_impl"] += 1
            if msg:
                dis.append((c, dt, msg, ir, mr))
    return kept, dis


def case_json(c, dt=None):
    d = {"aggregator": c["name"], "params": A.jsonable(c["params"]), "J": A.jsonable(c["J"]),
         "cat": c.get("cat")}
    if dt:
        d["dtype"] = dt
    return d


def report_corr(chk, dis, oracle_found):
    """correspondence disagreements: concrete failing input known only if a direct oracle also
    fired on the same case (then it has been reported already)."""
    for c, dt, msg, ir, mr in dis:
        key = (c["name"], A.jsonable(c["J"]).__repr__(), dt)
        if key in oracle_found:
            continue
        rep = case_json(c, dt)
        rep.update({"kind": "correspondence", "message": msg, "impl": ir[:2],
                    "model": [str(x) for x in mr[1]] if mr[0] == "ok" else list(mr),
                    "theorem_file": f"coq/theories/props/{chk.pid}.v"})
        chk.violation(f"correspondence {c['name']} {dt}: {msg}", rep, no_input=True)
