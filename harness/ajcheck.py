"""Generic driver for the autojac properties: a *case* is a program plus a list of calls; every
call is (1) run on the implementation (fresh graph per call variant), compared with the harness'
exact oracle, and (2) run through the Coq model (vm_compute at QN), compared with the same
oracle — the three voices must agree."""
from __future__ import annotations

import random
from fractions import Fraction

import torch

import ajlib
import common
from ajlib import numel


def prepare_call(prog, call):
    """fill in the effective parameter sets (defaults resolved by the harness' own DAG oracle)"""
    call = dict(call)
    if call["entry"] == "backward":
        if call["inputs"] is None:
            call["eff_inputs"] = ajlib.default_leaves(prog, call["tensors"])
        else:
            call["eff_inputs"] = list(dict.fromkeys(call["inputs"]))
    else:
        feats = call["features"]
        call["eff_shared"] = (ajlib.default_leaves(prog, feats) if call["shared"] is None
                              else list(call["shared"]))
        call["eff_tasks"] = ([ajlib.default_leaves(prog, [l], feats) for l in call["losses"]]
                             if call["tasks"] is None else [list(ps) for ps in call["tasks"]])
    return call


def model_source(cases, extra_defs=""):
    """cases: list of dict(id, prog(json), calls=[call...], old).  One vm_compute per case."""
    src = ajlib.AJ_HEADER + extra_defs
    for case in cases:
        prog = ajlib.Program.from_json(case["prog"])
        ts = prog.build(torch.float64)
        graph = ajlib.Graph(ts)
        Dp = {}
        for call in case["calls"]:
            Dp.update(ajlib.call_D(prog, call))
        name = f"P{case['id']}"
        src += ajlib.c_prog(name, prog, graph, Dp, expects=case.get("expects"))
        old = {int(t): (100 + int(t), prog.shapes[int(t)], v) for t, v in case["old"].items()}
        st = ajlib.c_store(old)
        tids = ajlib.c_natlist(range(prog.n()))
        runs = [f"show_run ({ajlib.model_call_expr(name, call, st)}) {tids}" for call in case["calls"]]
        src += "Eval vm_compute in [" + ";\n  ".join(runs) + "].\n"
    return src


def run_models(cases, tag, batch=10, extra_defs=""):
    files = [(f"{tag}_{b}", model_source(cases[b:b + batch], extra_defs)) for b in range(0, len(cases), batch)]
    outs = common.coq_run_files(files, tag)
    res = {}
    for b, out in zip(range(0, len(cases), batch), outs):
        vals = common.parse_coq_values(out)
        for case, v in zip(cases[b:b + batch], vals):
            res[case["id"]] = [ajlib.parse_run(x) for x in v]
    return res


def model_grads(prog, mr):
    mg = {}
    for t, g in enumerate(mr["grads"]):
        if prog.is_leaf[t]:
            mg[t] = None if g is None else (g[1], list(g[2]))
    return mg


def run_impl_call(case, call, dtype, agg_obj=None):
    prog = ajlib.Program.from_json(case["prog"])
    if dtype == "narrow":
        # float32 leaves, float64 computation: the Jacobian, the aggregator's weights and .grad are float32
        ts = prog.build(torch.float64, narrow=True)
        dtype = torch.float32
    else:
        ts = prog.build(dtype)
    ajlib.set_old_grads(ts, prog, case["old"], dtype)
    err = ajlib.impl_call(ts, call, dtype, agg_obj)
    return err, ajlib.snapshot_grads(ts, prog), ts, prog


def check_case(chk, pid, case, model_runs, dtypes=((torch.float64, 0.0), (torch.float32, 1e-4), ("narrow", 1e-4))):
    """valid calls: implementation == oracle (exact in f64 for integer aggregators) and
    model == oracle.  Returns True when everything agrees."""
    prog = ajlib.Program.from_json(case["prog"])
    ok = True
    for ci, call in enumerate(case["calls"]):
        exp = ajlib.oracle_call(prog, call, case["old"])
        exact_agg = call["agg"][0] != "mean" and not case.get("inexact") and not (
            call["agg"][0] == "constant" and any(float(w) != int(w) for w in call["agg"][1]))
        for dtype, tol in dtypes:
            if dtype == "narrow" and (case["id"] + ci) % 2:
                continue
            if dtype == torch.float64 and not exact_agg:
                tol = 1e-12
            err, grads, _, _ = run_impl_call(case, call, dtype)
            chk.count({"id": case["id"], "call": ci, "entry": call["entry"], "k": call["k"],
                       "dtype": str(dtype), "agg": call["agg"][0]}, nontrivial=True)
            bad = None
            if err is not None:
                bad = f"{call['entry']} raised {err} on a valid call"
            else:
                eq, t = ajlib.grads_match(grads, exp, tol)
                if not eq:
                    bad = (f".grad of leaf {t} after {call['entry']} is {grads.get(t)}, expected "
                           f"{None if exp[t] is None else [str(x) for x in exp[t]]}")
                elif dtype == torch.float64:
                    why = ajlib.agg_calls_ok(prog, call)
                    if why:
                        bad = f"{call['entry']}: {why}"
            if bad:
                structural = ": the aggregator was applied" in bad or ": the matrix handed" in bad
                chk.violation(f"{pid} {'correspondence (model: A applied to the Jacobian): ' if structural else ''}{bad} "
                              f"(chunk={call['k']}, {dtype})",
                              {"kind": "call", "case": case, "call_index": ci, "dtype": str(dtype)},
                              no_input=structural)
                ok = False
                break
        if not ok:
            break
        if model_runs is not None:
            mr = model_runs[ci]
            chk.cov["traces_validated_against_impl"] += 1
            if mr["code"] != 0:
                eq, t = False, f"error code {mr['code']}"
            else:
                mg = model_grads(prog, mr)
                eq, t = ajlib.grads_match(mg, exp, 0.0)
                if eq:
                    for tt, g in mg.items():
                        if g is not None and tuple(g[0]) != tuple(prog.shapes[tt]):
                            eq, t = False, tt
            if not eq:
                chk.violation(
                    f"correspondence: the Coq model of {call['entry']} disagrees with the reference "
                    f"update at {t}; theorems of props/{pid}.v no longer describe the code",
                    {"kind": "call-corr", "case": case, "call_index": ci, "model": str(mr)[:1500]},
                    no_input=True)
                ok = False
                break
    return ok


def rand_old(rng, prog, leaves, p=0.4):
    old = {}
    for t in leaves:
        if rng.random() < p:
            old[str(t)] = [rng.randint(-5, 5) for _ in range(numel(prog.shapes[t]))]
    return old


def rand_weights(rng, m):
    ws = list(range(2, m + 2))          # distinct and never the single weight 1 (one row is not "nothing to aggregate")
    rng.shuffle(ws)
    ws = [w if rng.random() < 0.75 else -w for w in ws]
    if rng.random() < 0.3:
        ws[rng.randrange(m)] = 0
    if rng.random() < 0.3:
        # weights that float32 cannot hold (k + odd * 2^-30, exact in float64): a float64 call keeps them
        ws = [float(w) + (2 * rng.randint(0, 2 ** 8) + 1) * 2.0 ** -30 for w in ws]
    return ws


def rand_agg(rng, m, p_const=0.65):
    a = rng.random()
    if a < p_const:
        return ["constant", rand_weights(rng, m)]
    if a < p_const + 0.2:
        return ["sum"]
    return ["mean"]
