"""Shared machinery of the autojac checks (C01, C02, C05, C06, C12, C13, C15, C20).

* random autograd programs over an op set that is interpreted twice: by PyTorch (the real
  graph the implementation differentiates) and, exactly over Python ints with forward-mode dual
  numbers, by this module (independent of torch.autograd) -> exact integer Jacobian blocks D(o,i)
* the node graph (grad_fn / next_functions / AccumulateGrad.variable / saved tensors) read off
  the real tensors through PyTorch's public attributes
* emission of a `prog Q` for the Coq model (coq/theories/Autojac.v) and parsing of its answers
"""
from __future__ import annotations

import itertools
import random
from fractions import Fraction

import torch

import common

# ------------------------------------------------------------------------------------------------
# exact tensors with forward-mode derivatives
# ------------------------------------------------------------------------------------------------


class Dual:
    __slots__ = ("v", "g")

    def __init__(self, v, g=None):
        self.v = v
        self.g = g or {}

    def __add__(self, o):
        g = dict(self.g)
        for k, c in o.g.items():
            g[k] = g.get(k, 0) + c
        return Dual(self.v + o.v, g)

    def __sub__(self, o):
        g = dict(self.g)
        for k, c in o.g.items():
            g[k] = g.get(k, 0) - c
        return Dual(self.v - o.v, g)

    def __neg__(self):
        return Dual(-self.v, {k: -c for k, c in self.g.items()})

    def __mul__(self, o):
        g = {k: c * o.v for k, c in self.g.items()}
        for k, c in o.g.items():
            g[k] = g.get(k, 0) + c * self.v
        return Dual(self.v * o.v, g)

    def scale(self, c):
        return Dual(self.v * c, {k: x * c for k, x in self.g.items()})


def numel(shape):
    n = 1
    for s in shape:
        n *= s
    return n


class ET:
    """exact tensor: shape + row-major flat list of Dual"""

    def __init__(self, shape, flat):
        self.shape = tuple(shape)
        self.flat = list(flat)
        assert len(self.flat) == numel(self.shape)


def _ew(a: ET, b: ET, f):
    if a.shape == b.shape:
        return ET(a.shape, [f(x, y) for x, y in zip(a.flat, b.flat)])
    if a.shape == ():
        return ET(b.shape, [f(a.flat[0], y) for y in b.flat])
    if b.shape == ():
        return ET(a.shape, [f(x, b.flat[0]) for x in a.flat])
    raise ValueError("shape")


def _dsum(xs):
    it = iter(xs)
    acc = next(it)
    for x in it:
        acc = acc + x
    return acc


def _matmul(a: ET, b: ET):
    A, B = a, b
    if len(a.shape) == 1:
        A = ET((1,) + a.shape, a.flat)
    if len(b.shape) == 1:
        B = ET(b.shape + (1,), b.flat)
    n, k = A.shape
    k2, p = B.shape
    assert k == k2
    out = [_dsum(A.flat[i * k + t] * B.flat[t * p + j] for t in range(k))
           for i in range(n) for j in range(p)]
    shape = ()
    if len(a.shape) == 2:
        shape += (n,)
    if len(b.shape) == 2:
        shape += (p,)
    return ET(shape, out)


def _sumdim(a: ET, dim):
    shape = a.shape
    outer = numel(shape[:dim])
    d = shape[dim]
    inner = numel(shape[dim + 1:])
    out = []
    for o in range(outer):
        for i in range(inner):
            out.append(_dsum(a.flat[(o * d + t) * inner + i] for t in range(d)))
    return ET(shape[:dim] + shape[dim + 1:], out)


def _transpose(a: ET):
    n, p = a.shape
    return ET((p, n), [a.flat[i * p + j] for j in range(p) for i in range(n)])


# op table: name -> (arity or None, exact fn(args, kw) -> ET or list[ET], torch fn -> Tensor or list)
def _t_unbind(a):
    return list(a.unbind(0))


OPS = {
    "add": (lambda a, b: _ew(a, b, lambda x, y: x + y), lambda a, b: a + b),
    "sub": (lambda a, b: _ew(a, b, lambda x, y: x - y), lambda a, b: a - b),
    "mul": (lambda a, b: _ew(a, b, lambda x, y: x * y), lambda a, b: a * b),
    "neg": (lambda a: ET(a.shape, [-x for x in a.flat]), lambda a: -a),
    "square": (lambda a: ET(a.shape, [x * x for x in a.flat]), lambda a: a * a),
    "pow2": (lambda a: ET(a.shape, [x * x for x in a.flat]), lambda a: a ** 2),
    "matmul": (_matmul, lambda a, b: a @ b),
    "sum": (lambda a: ET((), [_dsum(a.flat)]), lambda a: a.sum()),
    "transpose": (_transpose, lambda a: a.t()),
    "detach": (lambda a: ET(a.shape, [Dual(x.v) for x in a.flat]), lambda a: a.detach()),
    "clone": (lambda a: ET(a.shape, a.flat), lambda a: a.clone()),
}


def apply_exact(op, args, kw):
    if op in OPS:
        return OPS[op][0](*args)
    a = args[0]
    if op == "scale":
        c = Fraction(kw["c"]) if isinstance(kw["c"], float) else kw["c"]
        return ET(a.shape, [x.scale(c) for x in a.flat])
    if op == "sumdim":
        return _sumdim(a, kw["dim"])
    if op == "reshape":
        return ET(kw["shape"], a.flat)
    if op == "index":
        inner = numel(a.shape[1:])
        i = kw["i"]
        return ET(a.shape[1:], a.flat[i * inner:(i + 1) * inner])
    if op == "slice":
        inner = numel(a.shape[1:])
        s, e = kw["s"], kw["e"]
        return ET((e - s,) + a.shape[1:], a.flat[s * inner:e * inner])
    if op == "cat":
        return ET((sum(x.shape[0] for x in args),) + a.shape[1:],
                  [y for x in args for y in x.flat])
    if op == "stack":
        return ET((len(args),) + a.shape, [y for x in args for y in x.flat])
    if op == "unbind":
        inner = numel(a.shape[1:])
        return [ET(a.shape[1:], a.flat[i * inner:(i + 1) * inner]) for i in range(a.shape[0])]
    raise KeyError(op)


def apply_torch(op, args, kw):
    if op in OPS:
        return OPS[op][1](*args)
    a = args[0]
    if op == "scale":
        return a * kw["c"]
    if op == "sumdim":
        return a.sum(dim=kw["dim"])
    if op == "reshape":
        return a.reshape(kw["shape"])
    if op == "index":
        return a[kw["i"]]
    if op == "slice":
        return a[kw["s"]:kw["e"]]
    if op == "cat":
        return torch.cat(list(args), dim=0)
    if op == "stack":
        return torch.stack(list(args), dim=0)
    if op == "unbind":
        return list(a.unbind(0))
    raise KeyError(op)


# ------------------------------------------------------------------------------------------------
# programs
# ------------------------------------------------------------------------------------------------
SHAPES = [(), (), (1,), (2,), (3,), (2,), (1, 1), (2, 2), (1, 3), (3, 1), (2, 1, 2), (1, 2, 1, 2)]


class Program:
    """instrs: list of ('leaf', shape, values, requires_grad) or ('op', name, arg tids, kw).
    Tensors are numbered in creation order (a multi-output op creates several)."""

    def __init__(self):
        self.instrs = []
        self.shapes = []       # per tid
        self.is_leaf = []
        self.req = []          # requires_grad per tid
        self.parents = []      # per tid: list of parent tids (differentiable edges only)
        self.exact = []        # per tid: ET

    # -- construction ---------------------------------------------------------------------------
    def leaf(self, shape, values, req, alias=None):
        """alias = index of an earlier leaf of the same shape and values: a DISTINCT leaf tensor that shares its
        memory (q = p.detach().requires_grad_(), nn.Parameter(p.data)); an independent variable for autograd"""
        t = len(self.shapes)
        self.instrs.append(("leaf", tuple(shape), list(values), bool(req)) + (() if alias is None else (int(alias),)))
        self.shapes.append(tuple(shape))
        self.is_leaf.append(True)
        self.req.append(bool(req))
        self.parents.append([])
        self.exact.append(ET(shape, [Dual(v, {(t, j): 1} if req else {}) for j, v in enumerate(values)]))
        return t

    def op(self, name, args, **kw):
        res = apply_exact(name, [self.exact[a] for a in args], kw)
        outs = res if isinstance(res, list) else [res]
        self.instrs.append(("op", name, list(args), dict(kw)))
        tids = []
        req = any(self.req[a] for a in args) and name != "detach"
        for e in outs:
            t = len(self.shapes)
            self.shapes.append(e.shape)
            self.is_leaf.append(not req)     # a tensor that does not require grad is a leaf for torch
            self.req.append(req)
            self.parents.append([a for a in args if self.req[a]] if req else [])
            self.exact.append(e)
            tids.append(t)
        return tids if isinstance(res, list) else tids[0]

    def n(self):
        return len(self.shapes)

    def maxabs(self):
        m = 0
        for e in self.exact:
            for x in e.flat:
                m = max(m, abs(x.v), max((abs(c) for c in x.g.values()), default=0))
        return m

    # -- exact facts ----------------------------------------------------------------------------
    def reach(self, o, i):
        """a differentiable path leads from o down to i (i itself counts)"""
        if not (self.req[o] and self.req[i]):
            return False
        seen, st = set(), [o]
        while st:
            x = st.pop()
            if x == i:
                return True
            if x in seen:
                continue
            seen.add(x)
            st.extend(self.parents[x])
        return False

    def D(self, o, i):
        """exact total derivative block d o / d i (numel o x numel i) for a LEAF i requiring grad,
        or the identity for o == i"""
        no, ni = numel(self.shapes[o]), numel(self.shapes[i])
        if o == i:
            return [[1 if r == c else 0 for c in range(ni)] for r in range(no)]
        assert self.is_leaf[i], "D w.r.t. non-leaf inputs goes through D_via"
        if not self.req[i]:
            return [[0] * ni for _ in range(no)]
        return [[self.exact[o].flat[r].g.get((i, c), 0) for c in range(ni)] for r in range(no)]

    # -- torch ----------------------------------------------------------------------------------
    def build(self, dtype=torch.float64, narrow=False):
        """narrow=True (or a set of leaf ids): every (listed) leaf requiring grad is a FLOAT32 tensor that the computation upcasts at once
        (`p.to(dtype)`, a master-weights / mixed-precision arrangement): the keys the caller differentiates
        with respect to have another dtype than everything computed from them"""
        ts, use = [], []
        for ins in self.instrs:
            if ins[0] == "leaf":
                _, shape, values, req = ins[:4]
                ldt = torch.float32 if (req and (narrow is True or (narrow and len(ts) in narrow))) else dtype
                t = torch.tensor(values, dtype=ldt).reshape(shape)
                if len(ins) > 4:
                    t = ts[ins[4]].detach()              # same storage, same data_ptr, a different leaf
                elif len(shape) >= 2 and len(ts) % 3 == 1:
                    # every third leaf of rank >= 2 is DENSE BUT NOT ROW-MAJOR (column-major storage, as a
                    # transposed parameter or a channels_last weight): same values, same shape, still a leaf
                    rev = tuple(reversed(range(len(shape))))
                    base = torch.empty(tuple(reversed(shape)), dtype=ldt).permute(rev)
                    base.copy_(t)
                    t = base
                if req:
                    t.requires_grad_(True)
                ts.append(t)
                use.append(t.to(dtype) if t.dtype != dtype else t)
            else:
                _, name, args, kw = ins
                r = apply_torch(name, [use[a] for a in args], kw)
                if isinstance(r, list):
                    ts.extend(r)
                    use.extend(r)
                else:
                    ts.append(r)
                    use.append(r)
        assert len(ts) == self.n()
        for t, s in zip(ts, self.shapes):
            assert tuple(t.shape) == tuple(s), (t.shape, s)
        return ts

    def to_json(self):
        return {"instrs": [list(i) for i in self.instrs]}

    @staticmethod
    def from_json(obj):
        p = Program()
        for ins in obj["instrs"]:
            if ins[0] == "leaf":
                p.leaf(tuple(ins[1]), ins[2], ins[3], *(ins[4:5]))
            else:
                kw = dict(ins[3])
                if "shape" in kw:
                    kw["shape"] = tuple(kw["shape"])
                p.op(ins[1], ins[2], **kw)
        return p


def D_nonleaf(prog: Program, o, i):
    """total derivative of o w.r.t. an arbitrary tensor i (leaf or not), exactly: re-run the
    program with i replaced by a fresh independent variable (forward mode w.r.t. i)."""
    if o == i:
        ni = numel(prog.shapes[i])
        return [[1 if r == c else 0 for c in range(ni)] for r in range(ni)]
    if prog.is_leaf[i]:
        return prog.D(o, i)
    q = Program()
    for ins in prog.instrs:
        if ins[0] == "leaf":
            q.leaf(ins[1], ins[2], False)
        else:
            q.op(ins[1], ins[2], **ins[3])
        # cut: make tensor i an independent variable as soon as it exists
        if q.n() > i and not getattr(q, "_cut", False):
            q._cut = True
            e = q.exact[i]
            q.exact[i] = ET(e.shape, [Dual(x.v, {(i, j): 1}) for j, x in enumerate(e.flat)])
            q.req[i] = True
            # later outputs of the same multi-output instr are unaffected
    no, ni = numel(prog.shapes[o]), numel(prog.shapes[i])
    if o < i:
        return [[0] * ni for _ in range(no)]
    return [[q.exact[o].flat[r].g.get((i, c), 0) for c in range(ni)] for r in range(no)]


# ------------------------------------------------------------------------------------------------
# random programs
# ------------------------------------------------------------------------------------------------
def gen_program(rng: random.Random, n_leaves=None, n_ops=None, force_reuse=None, bound=2 ** 20):
    """A random DAG program; retries until all exact values/derivatives stay below `bound`."""
    for _ in range(200):
        p = _gen_program(rng, n_leaves, n_ops, force_reuse)
        if p is not None and p.maxabs() < bound:
            return p
    raise RuntimeError("could not generate a bounded program")


def _rand_vals(rng, shape):
    return [rng.randint(-3, 3) for _ in range(numel(shape))]


def _gen_program(rng, n_leaves, n_ops, force_reuse):
    p = Program()
    nl = n_leaves or rng.randint(1, 6)
    for j in range(nl):
        shape = rng.choice(SHAPES)
        req = rng.random() < 0.8 or j == 0
        p.leaf(shape, _rand_vals(rng, shape), req)
    nops = n_ops or rng.randint(2, 9)
    reuse = (rng.random() < 0.5) if force_reuse is None else force_reuse
    for step in range(nops):
        cands = list(range(p.n()))
        # prefer tensors that require grad; with reuse prefer already-used ones
        a = rng.choice([c for c in cands if p.req[c]] or cands)
        sa = p.shapes[a]
        choice = rng.random()
        try:
            if choice < 0.30:
                # binary elementwise with a same-shape or 0-d partner (created if needed)
                partners = [c for c in cands if (p.shapes[c] == sa or p.shapes[c] == ()) and
                            (c != a or reuse)]
                if not partners or rng.random() < 0.25:
                    b = p.leaf(sa, _rand_vals(rng, sa), rng.random() < 0.7)
                else:
                    b = rng.choice(partners)
                p.op(rng.choice(["add", "sub", "mul", "mul"]), [a, b] if rng.random() < 0.5 else [b, a])
            elif choice < 0.40:
                p.op(rng.choice(["neg", "square", "pow2", "clone"]), [a])
            elif choice < 0.47:
                p.op("scale", [a], c=rng.choice([-2, -1, 2, 3]))
            elif choice < 0.60:
                # matmul with a fresh or existing compatible matrix/vector
                if len(sa) == 1:
                    k = sa[0]
                    shp = rng.choice([(k,), (k, rng.randint(1, 3))])
                elif len(sa) == 2:
                    k = sa[1]
                    shp = rng.choice([(k,), (k, rng.randint(1, 3))])
                else:
                    continue
                ex = [c for c in cands if p.shapes[c] == shp]
                if ex and rng.random() < 0.5:
                    b = rng.choice(ex)
                else:
                    b = p.leaf(shp, _rand_vals(rng, shp), rng.random() < 0.7)
                p.op("matmul", [a, b])
            elif choice < 0.68:
                if len(sa) >= 1 and rng.random() < 0.5:
                    p.op("sumdim", [a], dim=rng.randrange(len(sa)))
                else:
                    p.op("sum", [a])
            elif choice < 0.76:
                n = numel(sa)
                opts = [(n,), (1, n), (n, 1)] + ([(2, n // 2)] if n % 2 == 0 and n > 0 else [])
                p.op("reshape", [a], shape=rng.choice(opts))
            elif choice < 0.84:
                if len(sa) >= 1 and sa[0] >= 1:
                    if rng.random() < 0.5:
                        p.op("index", [a], i=rng.randrange(sa[0]))
                    else:
                        s = rng.randrange(sa[0])
                        e = rng.randint(s + 1, sa[0])
                        p.op("slice", [a], s=s, e=e)
            elif choice < 0.90:
                same = [c for c in cands if p.shapes[c] == sa and p.req[c]]
                b = rng.choice(same)
                if len(sa) >= 1 and rng.random() < 0.5:
                    p.op("cat", [a, b])
                else:
                    p.op("stack", [a, b])
            elif choice < 0.95:
                if len(sa) >= 1 and 1 <= sa[0] <= 3:
                    p.op("unbind", [a])
            elif choice < 0.98:
                if len(sa) == 2:
                    p.op("transpose", [a])
            else:
                p.op("detach", [a])
        except (ValueError, AssertionError):
            continue
    return p


# ------------------------------------------------------------------------------------------------
# node graph of the real tensors (public PyTorch attributes only)
# ------------------------------------------------------------------------------------------------
def node_has_saved(node):
    for a in dir(node):
        if a.startswith("_saved_"):
            try:
                v = getattr(node, a)
            except RuntimeError:
                return True
            if isinstance(v, torch.Tensor):
                return True
            if isinstance(v, (list, tuple)) and any(isinstance(x, torch.Tensor) for x in v):
                return True
    return False


class Graph:
    def __init__(self, tensors):
        """tensors: list of torch tensors (tid = index)"""
        self.ids = {}
        self.nodes = []
        self.gfn, self.edge = [], []
        for t in tensors:
            self.gfn.append(self._id(t.grad_fn) if t.grad_fn is not None else None)
        for t in tensors:
            if t.requires_grad:
                self.edge.append(self._id(torch.autograd.graph.get_gradient_edge(t).node))
            else:
                self.edge.append(None)
        # closure
        i = 0
        self.next = []
        self.next_nr = []       # output number of the child each edge points to
        while i < len(self.nodes):
            nd = self.nodes[i]
            self.next.append([self._id(c) if c is not None else None for c, _ in nd.next_functions])
            self.next_nr.append([int(k) for _, k in nd.next_functions])
            i += 1
        self.onr = [int(t.output_nr) for t in tensors]
        self.acc, self.saved = [], []
        for nd in self.nodes:
            if type(nd).__name__ == "AccumulateGrad":
                v = nd.variable
                tid = next((k for k, t in enumerate(tensors) if t is v), None)
                self.acc.append(tid)
            else:
                self.acc.append(None)
            self.saved.append(node_has_saved(nd))

    def _id(self, node):
        if node not in self.ids:
            self.ids[node] = len(self.nodes)
            self.nodes.append(node)
        return self.ids[node]


# ------------------------------------------------------------------------------------------------
# Coq emission
# ------------------------------------------------------------------------------------------------
AJ_HEADER = common.CASES_HEADER + (
    "From TJ Require Import Chunk Agg Autojac Traverse AutojacShow.\n"
    "Local Open Scope nat_scope.\n")


def c_shape(s):
    return "[" + "; ".join(f"{int(x)}%nat" for x in s) + "]"


def c_natlist(v):
    return "[" + "; ".join(f"{int(x)}%nat" for x in v) + "]"


def c_optnat(x):
    return "None" if x is None else f"(Some {int(x)}%nat)"


def c_bool(b):
    return "true" if b else "false"


def c_prog(name, prog: Program, graph: Graph | None, Dpairs, expects=None):
    """Dpairs: dict (o,i) -> exact integer block.  graph may be None (no node graph)."""
    n = prog.n()
    shapes = "[" + "; ".join(c_shape(s) for s in prog.shapes) + "]"
    D = "[" + "; ".join(f"({o}%nat, {i}%nat, {common.cqmat(b)})" for (o, i), b in Dpairs.items()) + "]"
    reach = "[" + "; ".join(f"({o}%nat, {i}%nat)" for (o, i) in Dpairs if prog.reach(o, i)) + "]"
    req = "[" + "; ".join(c_bool(x) for x in prog.req) + "]"
    if expects is None:
        expects = [prog.req[t] and prog.is_leaf[t] for t in range(n)]
    exp = "[" + "; ".join(c_bool(x) for x in expects) + "]"
    if graph is None:
        gfn = edge = "[]"
        nxt = acc = saved = "[]"
    else:
        gfn = "[" + "; ".join(c_optnat(x) for x in graph.gfn) + "]"
        edge = "[" + "; ".join(c_optnat(x) for x in graph.edge) + "]"
        nxt = "[" + "; ".join("[" + "; ".join(c_optnat(c) for c in cs) + "]" for cs in graph.next) + "]"
        acc = "[" + "; ".join(c_optnat(x) for x in graph.acc) + "]"
        saved = "[" + "; ".join(c_bool(x) for x in graph.saved) + "]"
    if graph is None:
        eg = "mk_egraph [] []"
    else:
        ne = "[" + "; ".join("[" + "; ".join(
            "None" if c is None else f"(Some ({c}%nat, {k}%nat))" for c, k in zip(cs, ks)) + "]"
            for cs, ks in zip(graph.next, graph.next_nr)) + "]"
        eg = f"mk_egraph {ne} {c_natlist(graph.onr)}"
    return (f"Definition {name} : prog Q := mk_prog {shapes}\n  {D}\n  {reach}\n  {req}\n  {exp}\n"
            f"  {gfn}\n  {edge}\n  {nxt}\n  {acc}\n  {saved}.\n"
            f"Definition E{name} : egraph := {eg}.\n")


def c_store(grads: dict, freed=(), nxt=1000):
    """grads: tid -> (sid, shape, flat exact values)"""
    items = "; ".join(
        f"({t}%nat, ({sid}%nat, ({c_shape(shape)}, {common.cqvec(vals)})))"
        for t, (sid, shape, vals) in grads.items())
    return f"(mk_store [{items}] {c_natlist(freed)} {nxt}%nat)"


def c_agg(agg):
    """agg: ('constant', [w...]) | ('sum',) | ('mean',) | ('reject',)"""
    if agg[0] == "constant":
        return f"(agg_constant QN {common.cqvec(agg[1])})"
    if agg[0] == "sum":
        return "(fun J => Ok (agg_sum QN J))"
    if agg[0] == "mean":
        return "(fun J => Ok (agg_mean QN J))"
    if agg[0] == "reject":
        return "(fun _ : list (list Q) => @Err (list Q) ValueError)"
    raise KeyError(agg)


def exact_agg(agg, J):
    """the same aggregators, exactly, on a list-of-rows integer matrix"""
    m = len(J)
    n = len(J[0]) if J else 0
    if agg[0] == "constant":
        w = agg[1]
        if len(w) != m:
            return None
    elif agg[0] == "sum":
        w = [1] * m
    elif agg[0] == "mean":
        w = [Fraction(1, m)] * m
    else:
        return None
    return [sum(Fraction(w[r]) * J[r][c] for r in range(m)) for c in range(n)]


def parse_tens(p):
    """(shape, [(num,den)...]) -> (tuple shape, [Fraction])"""
    shape, data = p
    return tuple(shape), [Fraction(a, b) for (a, b) in data]


def parse_grads(gl):
    out = []
    for g in gl:
        if g == "None":
            out.append(None)
        else:
            _, (sid, tp) = g
            out.append((sid,) + parse_tens(tp))
    return out


def parse_run(v):
    """value printed by show_run -> dict"""
    code, (kind, items), (grads, freed, log) = v
    return {"code": code, "kind": kind,
            "items": {k: parse_tens(tp) for (k, tp) in items},
            "grads": parse_grads(grads), "freed": list(freed),
            "log": [tuple(x) for x in log]}


ERR_CODE = {None: 0, "ValueError": 1, "RuntimeError": 2, "TypeError": 3}


def tensor_exact(t: torch.Tensor):
    """a float tensor holding integers/dyadics -> (shape, [Fraction])"""
    return tuple(t.shape), [Fraction(float(x)) for x in t.detach().reshape(-1).tolist()]


def all_orders(xs, limit=None, rng=None):
    perms = list(itertools.permutations(xs))
    if limit and len(perms) > limit:
        perms = [perms[0], perms[-1]] + (rng or random).sample(perms[1:-1], limit - 2)
    return [list(p) for p in perms]


# ------------------------------------------------------------------------------------------------
# multi-task programs and generic calls (backward / mtl_backward) — impl, model, oracle
# ------------------------------------------------------------------------------------------------
def entangled(prog, feats):
    """True when the features do not separate cleanly at the level of autograd NODES: the grad_fn of
    one feature is the grad_fn of another (outputs of one multi-output op) or lies below it.  Then
    the per-task sweeps of mtl_backward run through nodes the trunk sweep needs again, which
    retain_graph=False does not allow (the side condition of C13)."""
    if any(a != b and prog.reach(a, b) for a in feats for b in feats):
        return True
    ts = prog.build(torch.float64)
    g = Graph(ts)
    nodes = [g.gfn[f] for f in feats]
    if len(set(nodes)) < len(nodes):
        return True
    for a in range(len(feats)):
        seen, st = set(), [c for c in g.next[nodes[a]] if c is not None]
        while st:
            x = st.pop()
            if x in seen:
                continue
            seen.add(x)
            st.extend(c for c in g.next[x] if c is not None)
        if any(nodes[b] in seen for b in range(len(feats)) if b != a):
            return True
    return False


def gen_mtl(rng: random.Random, overlap=False, nested=None, bound=2 ** 20, alias=None, zero_last=False, nt=None):
    """trunk (random program) -> 1..3 feature tensors -> 1..4 heads with 0..3 own parameters
    (parameters shared between tasks in ~30 %).  Returns (prog, features, losses, tasks, shared)
    with tasks = per-loss lists of own parameters (leaves), shared = leaves the features reach.
    overlap=True lets a head use a trunk leaf directly (the default sets then overlap)."""
    for _ in range(300):
        p = _gen_program(rng, rng.randint(1, 3), rng.randint(2, 6), None)
        if p is None:
            continue
        cand = [t for t in range(p.n()) if p.req[t] and not p.is_leaf[t] and numel(p.shapes[t]) >= 1]
        if not cand:
            continue
        nf = rng.choice([1, 1, 2, 3])
        feats = rng.sample(cand, min(nf, len(cand)))
        is_nested = entangled(p, feats)
        if nested is not None and is_nested != nested:
            continue
        shared = [t for t in range(p.n()) if p.is_leaf[t] and p.req[t] and any(p.reach(f, t) for f in feats)]
        trunk_leaves = [t for t in range(p.n()) if p.is_leaf[t] and p.req[t]]
        n_trunk = p.n()
        n_tasks = nt
        nt = rng.randint(1, 4) if n_tasks is None else n_tasks
        losses, tasks, pool, probes = [], [], [], []
        ok = True
        for ti in range(nt):
            params = []
            terms = []
            if (zero_last and ti == nt - 1) or zero_last == "all":
                # an INACTIVE last task (dead unit, masked loss): loss = sum(f * q) with q = 0, so its
                # gradient w.r.t. every feature -- the last row of the Jacobian -- is exactly zero
                for f in feats:
                    q = p.leaf(p.shapes[f], [0] * numel(p.shapes[f]), True)
                    params.append(q)
                    terms.append(p.op("sum", [p.op("mul", [f, q])]))
                loss = terms[0]
                for t in terms[1:]:
                    loss = p.op("add", [loss, t])
                losses.append(loss)
                tasks.append(params)
                continue
            for f in rng.sample(feats, rng.randint(1, len(feats))):
                sf = p.shapes[f]
                c = rng.random()
                if c < 0.55:
                    if pool and rng.random() < (0.7 if alias else 0.3) and any(p.shapes[q] == sf for q in pool):
                        q = rng.choice([q for q in pool if p.shapes[q] == sf])
                    else:
                        q = p.leaf(sf, _rand_vals(rng, sf), True)
                        pool.append(q)
                    if q not in params:
                        params.append(q)
                    terms.append(p.op("sum", [p.op("mul", [f, q])]))
                elif c < 0.8:
                    terms.append(p.op("sum", [p.op("square", [f])]))
                else:
                    terms.append(p.op("scale", [p.op("sum", [f])], c=rng.choice([-2, 2, 3])))
            if rng.random() < 0.3:
                q = p.leaf((), _rand_vals(rng, ()), True)
                pool.append(q)
                params.append(q)
                terms[0] = p.op("mul", [terms[0], q])
            if rng.random() < 0.2:
                q = p.leaf((2,), _rand_vals(rng, (2,)), True)
                pool.append(q)
                params.append(q)
                terms.append(p.op("sum", [q]))          # additive parameter
            if alias or (alias is None and rng.random() < 0.25):
                # two same-shape parameters entering additively: autograd hands back ONE gradient
                # tensor for both (aliasing hazard for whoever stores it without cloning)
                f0 = feats[0]
                b1 = p.leaf(p.shapes[f0], _rand_vals(rng, p.shapes[f0]), True)
                b2 = p.leaf(p.shapes[f0], _rand_vals(rng, p.shapes[f0]), True)
                pool += [b1, b2]
                params += [b1, b2]
                v = rng.random()
                if v < 0.3:
                    terms.append(p.op("sum", [p.op("add", [p.op("add", [f0, b1]), b2])]))
                elif v < 0.6:
                    # ((f + b1 + b2)^2).sum(): the gradient 2(f + b1 + b2) is a fresh dense tensor handed
                    # to b1 AND b2 (and to the feature) as one object
                    terms.append(p.op("sum", [p.op("square", [p.op("add", [p.op("add", [f0, b1]), b2])])]))
                else:
                    # W_eff = base + offset used multiplicatively: the shared gradient tensor is a fresh,
                    # contiguous, non-view tensor
                    terms.append(p.op("sum", [p.op("mul", [p.op("add", [b1, b2]), f0])]))
            if rng.random() < 0.3:
                # a head branch that depends on a task parameter ONLY (not on the features) and holds
                # saved tensors, e.g. an uncertainty weight: its intermediate tensor is recorded as a
                # probe for follow-up differentiations (C13)
                q = p.leaf((2,), [rng.choice([-2, -1, 1, 2]) for _ in range(2)], True)
                pool.append(q)
                params.append(q)
                pp = p.op("square", [q])
                probes.append((pp, q))
                terms.append(p.op("sum", [pp]))
            if overlap and trunk_leaves and (ti == 0 or rng.random() < 0.4):
                # a head reaches the trunk AROUND the features: directly through a trunk leaf, or
                # through a hidden trunk activation (skip connection) that is not a feature
                hidden = [t for t in range(n_trunk) if p.req[t] and not p.is_leaf[t] and t not in feats]
                if hidden and rng.random() < 0.6:
                    x = rng.choice(hidden)
                    terms.append(p.op("sum", [p.op("square", [x])] if rng.random() < 0.5 else [x]))
                else:
                    x = rng.choice(trunk_leaves)
                    terms.append(p.op("sum", [x]))
            loss = terms[0]
            for t in terms[1:]:
                loss = p.op("add", [loss, t])
            if p.shapes[loss] != ():
                ok = False
                break
            losses.append(loss)
            tasks.append(params)
        if not ok or p.maxabs() >= bound:
            continue
        p.probes = probes
        return p, feats, losses, tasks, shared
    raise RuntimeError("no mtl program")


def gen_mtl_alias_pair(rng: random.Random):
    """the smallest program in which autograd hands ONE gradient object to a task parameter AND to the
    feature cotangent: loss_a = ((f + b)^2).sum() (AddBackward forwards its incoming gradient unchanged to
    both operands), with b also a parameter of another task whose accumulation then works in place on
    b.grad.  Losses in random order, optional third task, trunk with one or two leaves."""
    p = Program()
    n = rng.choice([2, 3])
    x = p.leaf((n,), _rand_vals(rng, (n,)), True)
    if rng.random() < 0.5:
        w0 = p.leaf((n,), _rand_vals(rng, (n,)), True)
        f = p.op("mul", [x, w0])
    else:
        f = p.op("scale", [x], c=rng.choice([2, 3]))
    b = p.leaf((n,), _rand_vals(rng, (n,)), True)
    c = p.leaf((n,), _rand_vals(rng, (n,)), True)
    la = p.op("sum", [p.op("square", [p.op("add", [f, b])])])
    lb = p.op("sum", [p.op("mul", [p.op("mul", [f, b]), c])])
    items = [(la, [b]), (lb, [b, c])]
    if rng.random() < 0.5:
        d = p.leaf((n,), _rand_vals(rng, (n,)), True)
        items.append((p.op("sum", [p.op("mul", [f, d])]), [d]))
    if rng.random() < 0.3:
        rng.shuffle(items)
    losses, tasks = [l for l, _ in items], [ps for _, ps in items]
    shared = [t for t in range(p.n()) if p.is_leaf[t] and p.req[t] and p.reach(f, t)]
    p.probes = []
    return p, [f], losses, tasks, shared


def exact_vjp(prog, outs, cots, i):
    """sum_o cot_o . D(o,i), exact; cots: list of flat lists"""
    n = numel(prog.shapes[i])
    acc = [Fraction(0)] * n
    for o, c in zip(outs, cots):
        D = D_nonleaf(prog, o, i)
        for r, cr in enumerate(c):
            if cr != 0:
                for j in range(n):
                    acc[j] += Fraction(cr) * D[r][j]
    return acc


def mtl_matrix(prog, feats, losses, shared):
    M = []
    for l in losses:
        cots = [[Fraction(x) for x in D_nonleaf(prog, l, f)[0]] for f in feats]
        row = []
        for p_ in shared:
            row.extend(exact_vjp(prog, feats, cots, p_))
        M.append(row)
    return M


def call_D(prog, call):
    """the derivative blocks the model needs for a call"""
    Dp = {}
    if call["entry"] == "backward":
        for o in call["tensors"]:
            for i in call["eff_inputs"]:
                Dp[(o, i)] = D_nonleaf(prog, o, i)
    else:
        for l, ps in zip(call["losses"], call["eff_tasks"]):
            for q in list(ps) + list(call["features"]):
                Dp[(l, q)] = D_nonleaf(prog, l, q)
        for f in call["features"]:
            for p_ in call["eff_shared"]:
                Dp[(f, p_)] = D_nonleaf(prog, f, p_)
    return Dp


def c_optlist(x, f):
    return "None" if x is None else f"(Some {f(x)})"


def c_listlist(ll):
    return "[" + "; ".join(c_natlist(l) for l in ll) + "]"


def model_call_expr(pname, call, store):
    """Coq expression: the model's entry point applied to the call (result: res tdict * store)"""
    A = c_agg(tuple(call["agg"]))
    k = call["k"]
    kk = "None" if k is None else f"(Some {k}%nat)"
    rt = c_bool(call["retain"])
    sig = call.get("sigma", "(fun l => l)")
    if call["entry"] == "backward":
        if call["inputs"] is None:
            return f"backward_default QN {pname} E{pname} {A} {sig} {c_natlist(call['tensors'])} {kk} {rt} {store}"
        ordl = call.get("ord", list(dict.fromkeys(call["inputs"])))
        return f"backward_model QN {pname} {A} {c_natlist(call['tensors'])} {c_natlist(ordl)} {kk} {rt} {store}"
    tasks = c_optlist(call["tasks"], c_listlist)
    shared = c_optlist(call["shared"], c_natlist)
    return (f"mtl_backward_default QN {pname} E{pname} {A} {sig} {c_natlist(call['losses'])} "
            f"{c_natlist(call['features'])} {tasks} {shared} {kk} {rt} {store}")


def mk_agg_obj(agg, dtype):
    from torchjd.aggregation import Constant, Mean, Sum
    if agg[0] == "constant":
        return Constant(torch.tensor([float(w) for w in agg[1]], dtype=dtype))
    if agg[0] == "sum":
        return Sum()
    if agg[0] == "mean":
        return Mean()
    raise KeyError(agg)


def _wrap_iterable(kind):
    """how a parameter collection is handed to the API: the signatures say Iterable[Tensor]"""
    if kind == "gen":
        return lambda l: (x for x in l)
    if kind == "iter":
        return iter
    if kind == "tuple":
        return tuple
    if kind == "dictkeys":
        return lambda l: {x: None for x in l}.keys()
    return list


AGG_CALLS = []          # matrices the aggregator was applied to during the last impl_call


def impl_call(ts, call, dtype, agg_obj=None):
    """run the real entry point on already-built tensors; returns exception class name or None.
    The aggregator's forward is observed through a forward hook (AGG_CALLS): the properties speak of
    `aggregator(J)`, so the aggregator must be APPLIED, once, to the Jacobian itself."""
    from torchjd import backward, mtl_backward
    A = agg_obj or mk_agg_obj(call["agg"], dtype)
    del AGG_CALLS[:]
    handle = A.register_forward_hook(
        lambda mod, args, out: AGG_CALLS.append(args[0].detach().to(torch.float64).tolist()))
    try:
        return _impl_call(ts, call, A, backward, mtl_backward)
    finally:
        handle.remove()


def expected_matrix(prog, call):
    """the exact matrix the aggregator must be applied to (None when there is nothing to aggregate)"""
    if call["entry"] == "backward":
        ord_ = call["eff_inputs"]
        if not ord_:
            return None
        J = []
        for o in call["tensors"]:
            blocks = [D_nonleaf(prog, o, i) for i in ord_]
            for r in range(numel(prog.shapes[o])):
                J.append([x for b in blocks for x in b[r]])
        return J
    sh = call["eff_shared"]
    return mtl_matrix(prog, call["features"], call["losses"], sh) if sh else None


def agg_calls_ok(prog, call):
    """None when the aggregator was applied exactly once to the exact Jacobian (columns compared as a
    multiset: the order of defaulted parameter sets is the iteration order of a Python set), else a
    description.  Only meaningful for float64 runs of integer programs (exact)."""
    J = expected_matrix(prog, call)
    if J is None or not J or not J[0]:
        return None
    if len(AGG_CALLS) != 1:
        return f"the aggregator was applied {len(AGG_CALLS)} times instead of once to the Jacobian"
    M = AGG_CALLS[0]
    if len(M) != len(J) or any(len(r) != len(J[0]) for r in M):
        return (f"the aggregator was applied to a {len(M)}x{len(M[0]) if M else 0} matrix, the Jacobian is "
                f"{len(J)}x{len(J[0])}")
    colsM = sorted(tuple(float(M[i][j]) for i in range(len(M))) for j in range(len(M[0])))
    colsJ = sorted(tuple(float(J[i][j]) for i in range(len(J))) for j in range(len(J[0])))
    if colsM != colsJ:
        return "the matrix handed to the aggregator is not the Jacobian (rows in the given order, columns per parameter)"
    return None


def _impl_call(ts, call, A, backward, mtl_backward):
    try:
        if call["entry"] == "backward":
            tens = [ts[o] for o in call["tensors"]]
            if call.get("single_tensor"):
                tens = tens[0]
            backward(tens, A,
                     inputs=None if call["inputs"] is None else [ts[i] for i in call["inputs"]],
                     retain_graph=call["retain"], parallel_chunk_size=call["k"])
        else:
            feats = [ts[f] for f in call["features"]]
            if call.get("single_feature"):
                feats = feats[0]
            wrap = _wrap_iterable(call.get("param_kind", "list"))
            mtl_backward([ts[l] for l in call["losses"]], feats, A,
                         tasks_params=None if call["tasks"] is None else [wrap([ts[q] for q in ps]) for ps in call["tasks"]],
                         shared_params=None if call["shared"] is None else wrap([ts[p_] for p_ in call["shared"]]),
                         retain_graph=call["retain"], parallel_chunk_size=call["k"])
    except Exception as e:  # noqa: BLE001
        return type(e).__name__
    return None


def snapshot_grads(ts, prog, exact=True):
    out = {}
    for t in range(prog.n()):
        if prog.is_leaf[t]:
            g = ts[t].grad
            out[t] = None if g is None else (tuple(g.shape), [float(x) for x in g.reshape(-1).tolist()])
    return out


def set_old_grads(ts, prog, old, dtype):
    """pre-existing .grad fields, with the dtype AND THE MEMORY LAYOUT of their leaf (what an earlier
    loss.backward() or `p.grad = torch.zeros_like(p)` leaves behind): not contiguous for a column-major leaf"""
    for t, vals in old.items():
        leaf = ts[int(t)]
        g = torch.empty_like(leaf.detach())
        g.copy_(torch.tensor([float(v) for v in vals], dtype=leaf.dtype).reshape(prog.shapes[int(t)]))
        leaf.grad = g


def oracle_call(prog, call, old):
    """expected .grad of every leaf after an ACCEPTED call (Fractions), independent of Coq"""
    exp = {}
    for t in range(prog.n()):
        if prog.is_leaf[t]:
            o = old.get(str(t), old.get(t))
            exp[t] = None if o is None else [Fraction(x) for x in o]

    def add(t, vals):
        exp[t] = [a + b for a, b in zip(exp[t], vals)] if exp[t] is not None else list(vals)
    if call["entry"] == "backward":
        ord_ = call["eff_inputs"]
        if ord_:
            J = []
            for o in call["tensors"]:
                blocks = [D_nonleaf(prog, o, i) for i in ord_]
                for r in range(numel(prog.shapes[o])):
                    J.append([x for b in blocks for x in b[r]])
            v = exact_agg(tuple(call["agg"]), J)
            off = 0
            for i in ord_:
                n = numel(prog.shapes[i])
                add(i, v[off:off + n])
                off += n
    else:
        for l, ps in zip(call["losses"], call["eff_tasks"]):
            for q in ps:
                add(q, [Fraction(x) for x in D_nonleaf(prog, l, q)[0]])
        sh = call["eff_shared"]
        if sh:
            M = mtl_matrix(prog, call["features"], call["losses"], sh)
            v = exact_agg(tuple(call["agg"]), M)
            off = 0
            for p_ in sh:
                n = numel(prog.shapes[p_])
                add(p_, v[off:off + n])
                off += n
    return exp


def default_leaves(prog, tensors, excluded=()):
    """oracle of the default parameter sets from the harness' own op DAG: requires-grad leaves
    reachable from `tensors` along differentiable paths that do not pass through `excluded`"""
    seen, st, res = set(), list(tensors), []
    exc = set(excluded)
    while st:
        x = st.pop()
        if x in seen or x in exc:
            continue
        seen.add(x)
        if prog.is_leaf[x] and prog.req[x]:
            res.append(x)
        st.extend(prog.parents[x])
    return sorted(res)


def grads_match(impl, exp, tol=0.0):
    for t, e in exp.items():
        g = impl.get(t)
        if (g is None) != (e is None):
            return False, t
        if g is None:
            continue
        if len(g[1]) != len(e):
            return False, t
        for a, b in zip(g[1], e):
            if tol == 0.0:
                if Fraction(a) != Fraction(b):
                    return False, t
            elif abs(float(a) - float(b)) > tol * max(1.0, abs(float(b))):
                return False, t
    return True, None
