"""Entry point: ./check <Cxx> [--tier quick|thorough] [--replay file]."""
import argparse
import importlib
import json
import os
import sys
import traceback

sys.path.insert(0, os.path.dirname(os.path.abspath(__file__)))
import common  # noqa: E402


def run_corpus(chk, pid):
    """corpus first: the minimised witnesses of the defects found so far (corpus/regressions/<cxx>_*.py,
    exit 0 = property holds on the witness) run against the tree under check before anything random;
    a 'fixed' finding that returns is reported like any other violation, with the witness as replay."""
    import glob
    import subprocess
    d = os.path.join(os.path.dirname(os.path.dirname(os.path.abspath(__file__))), "corpus", "regressions")
    ran = []
    for f in sorted(glob.glob(os.path.join(d, pid.lower() + "_*.py"))):
        env = dict(os.environ, PYTHONHASHSEED="0")
        try:
            r = subprocess.run([sys.executable, f], env=env, capture_output=True, text=True, timeout=900)
            rc, out = r.returncode, (r.stdout + r.stderr)[-800:]
        except subprocess.TimeoutExpired:
            rc, out = -1, "timeout"
        ran.append(os.path.basename(f))
        if rc != 0:
            chk.violation(f"regression witness {os.path.basename(f)} fails again: " +
                          " | ".join(x for x in out.strip().splitlines()[-3:] if "conda" not in x),
                          {"kind": "regression_witness", "script": f, "exit": rc, "output": out})
    chk.cov["regression_witnesses"] = ran


def main():
    ap = argparse.ArgumentParser()
    ap.add_argument("pid")
    ap.add_argument("--tier", default=os.environ.get("VERIF_TIER", "quick"))
    ap.add_argument("--replay", default=None)
    a = ap.parse_args()
    tier = a.tier if a.tier in ("quick", "thorough") else "quick"
    seed = int(os.environ.get("VERIF_SEED", "0") or 0)
    import torchjd
    assert torchjd.__file__.startswith(os.environ.get("VERIF_REPO_SRC", "/repo/src") + "/"), torchjd.__file__
    mod = importlib.import_module(f"props.{a.pid.lower()}")
    chk = common.Check(a.pid, tier, seed, level=getattr(mod, "LEVEL", "proof"))
    if a.replay:
        obj = json.load(open(a.replay))
        if obj.get("kind") == "regression_witness":
            import subprocess
            ok = subprocess.run([sys.executable, obj["script"]]).returncode == 0
        else:
            ok = mod.replay(chk, obj)
        print("REPLAY", "property holds on this case" if ok else "VIOLATION reproduced")
        sys.exit(0 if ok else 1)
    chk.obligations(getattr(mod, "PROP_FILE", a.pid))
    if tier == "thorough" and os.environ.get("VERIF_SKIP_COQCHK") != "1":
        chk.coqchk(getattr(mod, "PROP_FILE", a.pid))
    run_corpus(chk, a.pid)
    try:
        mod.run(chk)
    except Exception:
        # a crash of the machinery is never reported as a property violation of its own accord:
        # the correspondence could not be established, which is reported as such.
        tb = traceback.format_exc()
        sys.stderr.write(tb)
        chk.violation("check machinery failed (correspondence not established): " + tb[-600:],
                      {"kind": "harness_error", "traceback": tb}, no_input=True)
    sys.exit(chk.finish())


if __name__ == "__main__":
    main()
