"""Entry point: ./check <Cxx> [--tier quick|thorough] [--replay file]."""
import argparse
import importlib
import json
import os
import sys
import traceback

sys.path.insert(0, os.path.dirname(os.path.abspath(__file__)))
import common  # noqa: E402


def main():
    ap = argparse.ArgumentParser()
    ap.add_argument("pid")
    ap.add_argument("--tier", default=os.environ.get("VERIF_TIER", "quick"))
    ap.add_argument("--replay", default=None)
    a = ap.parse_args()
    tier = a.tier if a.tier in ("quick", "thorough") else "quick"
    seed = int(os.environ.get("VERIF_SEED", "0") or 0)
    import torchjd
    assert torchjd.__file__.startswith(os.environ.get("VERIF_REPO_SRC", "/repo/src") + "/"), torchjd.__file__
    mod = importlib.import_module(f"props.{a.pid.lower()}")
    chk = common.Check(a.pid, tier, seed, level=getattr(mod, "LEVEL", "proof"))
    if a.replay:
        obj = json.load(open(a.replay))
        ok = mod.replay(chk, obj)
        print("REPLAY", "property holds on this case" if ok else "VIOLATION reproduced")
        sys.exit(0 if ok else 1)
    chk.obligations(getattr(mod, "PROP_FILE", a.pid))
    if tier == "thorough" and os.environ.get("VERIF_SKIP_COQCHK") != "1":
        chk.coqchk(getattr(mod, "PROP_FILE", a.pid))
    try:
        mod.run(chk)
    except Exception:
        # a crash of the machinery is never reported as a property violation of its own accord:
        # the correspondence could not be established, which is reported as such.
        tb = traceback.format_exc()
        sys.stderr.write(tb)
        chk.violation("check machinery failed (correspondence not established): " + tb[-600:],
                      {"kind": "harness_error", "traceback": tb}, no_input=True)
    sys.exit(chk.finish())


if __name__ == "__main__":
    main()
