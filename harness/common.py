"""Shared machinery of the /verif checks: Coq obligations, model execution (vm_compute),
evidence, replays, verdict, known findings.  Run with /venv/bin/python, PYTHONPATH=/repo/src."""
from __future__ import annotations

import fcntl
import glob
import hashlib
import json
import os
import re
import shutil
import subprocess
import sys
import time
from fractions import Fraction

VERIF = "/verif"
COQDIR = os.path.join(VERIF, "coq")
THEORIES = os.path.join(COQDIR, "theories")
SCRATCH = os.path.join(VERIF, "_scratch")
REPLAYS = os.path.join(VERIF, "replays")
EVIDENCE = os.path.join(VERIF, "evidence")
if os.environ.get("VERIF_REPO_SRC"):
    # testing aid only (never set by a registered command): a run against a scratch worktree must not
    # overwrite the evidence of /repo
    EVIDENCE = os.path.join(VERIF, "_scratch", "evidence_wt")

# Axioms of Coq's standard library that the development may depend on (named in DESIGN.md §10).
ALLOWED_AXIOMS = {
    "ClassicalDedekindReals.sig_forall_dec",
    "ClassicalDedekindReals.sig_not_dec",
    "FunctionalExtensionality.functional_extensionality_dep",
    "Classical_Prop.classic",
}

FORBIDDEN = re.compile(
    r"\b(Admitted|admit|Axiom|Axioms|Parameter|Parameters|Conjecture|Admit Obligations|"
    r"Unset Guard Checking|Unset Positivity Checking|Unset Universe Checking|bypass_check|"
    r"type-in-type|impredicative-set|native_compute)\b"
)

TRUSTED_BASE_COMMON = [
    "Coq 8.16.1 kernel (coqc); vm_compute used to run the model and in Examples; no native_compute",
    "hand-written Gallina model tied to /repo by the differential correspondence run of this check",
    "Python harness (generators, exact rational/integer oracles, canonicalisation, tolerances)",
]


# ------------------------------------------------------------------------------------------------
# Coq build and obligations
# ------------------------------------------------------------------------------------------------
class Lock:
    def __init__(self, path):
        self.path = path

    def __enter__(self):
        os.makedirs(os.path.dirname(self.path), exist_ok=True)
        self.f = open(self.path, "w")
        fcntl.flock(self.f, fcntl.LOCK_EX)
        return self

    def __exit__(self, *a):
        fcntl.flock(self.f, fcntl.LOCK_UN)
        self.f.close()


def coq_make(target: str | None = None, timeout=3000):
    """(Re)build the Coq project (incremental).  Returns (ok, log)."""
    with Lock(os.path.join(SCRATCH, "coq.lock")):
        if not os.path.exists(os.path.join(COQDIR, "Makefile")):
            subprocess.run(
                ["coq_makefile", "-f", "_CoqProject", "-o", "Makefile"], cwd=COQDIR,
                capture_output=True, text=True)
        cmd = ["timeout", str(timeout), "make", "-j16"]
        if target:
            cmd.append(target)
        p = subprocess.run(cmd, cwd=COQDIR, capture_output=True, text=True)
        return p.returncode == 0, (p.stdout + p.stderr)[-4000:]


def hygiene_scan():
    """grep the whole development for anything that would declare an axiom or switch off a check."""
    bad = []
    for path in sorted(glob.glob(os.path.join(THEORIES, "**", "*.v"), recursive=True)):
        txt = open(path).read()
        txt_nc = re.sub(r"\(\*.*?\*\)", "", txt, flags=re.S)
        for m in FORBIDDEN.finditer(txt_nc):
            bad.append(f"{os.path.relpath(path, COQDIR)}: {m.group(0)}")
    return bad


def check_obligations(prop_file: str):
    """Compile theories/props/<prop_file>.v afresh, parse its theorems and Print Assumptions.
    Returns dict(obligations, discharged, theorems=[{name, axioms}], errors=[...])."""
    src = os.path.join(THEORIES, "props", prop_file + ".v")
    out = {"obligations": 0, "discharged": 0, "theorems": [], "errors": [], "checker_cmd": ""}
    if not os.path.exists(src):
        out["errors"].append(f"missing {src}")
        return out
    text = open(src).read()
    text_nc = re.sub(r"\(\*.*?\*\)", "", text, flags=re.S)
    names = re.findall(r"^\s*Theorem\s+(\w+)", text_nc, flags=re.M)
    printed = re.findall(r"^\s*Print Assumptions\s+(\w+)\s*\.", text_nc, flags=re.M)
    out["obligations"] = len(names)
    for n in names:
        if n not in printed:
            out["errors"].append(f"theorem {n} has no Print Assumptions")
    bad = hygiene_scan()
    if bad:
        out["errors"].append("forbidden tokens: " + "; ".join(bad[:10]))
    ok, log = coq_make()
    if not ok:
        out["errors"].append("coq build failed: " + log[-1500:])
    os.makedirs(SCRATCH, exist_ok=True)
    tmpd = os.path.join(SCRATCH, f"ob.{prop_file}.{os.getpid()}")
    os.makedirs(tmpd, exist_ok=True)
    tmpvo = os.path.join(tmpd, prop_file + ".vo")
    cmd = ["timeout", "600", "coqc", "-R", "theories", "TJ", "-o", tmpvo, src]
    out["checker_cmd"] = "cd /verif/coq && make -j16 && coqc -R theories TJ theories/props/%s.v" % prop_file
    p = subprocess.run(cmd, cwd=COQDIR, capture_output=True, text=True)
    shutil.rmtree(tmpd, ignore_errors=True)
    if p.returncode != 0:
        out["errors"].append("props file does not compile: " + (p.stderr or p.stdout)[-1500:])
        return out
    # split the output in Print Assumptions blocks
    blocks = re.split(r"(?m)^(?=Closed under the global context|Axioms:)", p.stdout)
    blocks = [b for b in blocks if b.startswith("Closed under") or b.startswith("Axioms:")]
    if len(blocks) != len(printed):
        out["errors"].append(
            f"expected {len(printed)} Print Assumptions blocks, found {len(blocks)}")
    disch = 0
    for name, b in zip(printed, blocks):
        if b.startswith("Closed under"):
            axioms = []
        else:
            axioms = [a for a in re.findall(r"(?m)^([A-Za-z_][\w.']*)", b) if a != "Axioms"]
        badax = [a for a in axioms if a not in ALLOWED_AXIOMS]
        out["theorems"].append({"name": name, "axioms": axioms})
        if badax:
            out["errors"].append(f"{name} depends on non-allowed axioms {badax}")
        elif name in names:
            disch += 1
    if not out["errors"]:
        out["discharged"] = disch
    else:
        out["discharged"] = 0 if any("compile" in e or "build failed" in e for e in out["errors"]) else disch
    return out


# ------------------------------------------------------------------------------------------------
# running the model: generated cases files evaluated with vm_compute
# ------------------------------------------------------------------------------------------------
def coq_run_files(files: list[tuple[str, str]], tag: str, timeout=1500) -> list[str]:
    """files: list of (name, coq source).  Runs coqc on each (16 in parallel), returns stdouts."""
    d = os.path.join(SCRATCH, f"{tag}.{os.getpid()}")
    shutil.rmtree(d, ignore_errors=True)
    os.makedirs(d)
    procs = []
    outs = [None] * len(files)
    try:
        idx = 0
        running = []
        while idx < len(files) or running:
            while idx < len(files) and len(running) < 16:
                name, src = files[idx]
                path = os.path.join(d, name + ".v")
                open(path, "w").write(src)
                pr = subprocess.Popen(
                    ["timeout", str(timeout), "coqc", "-R", THEORIES, "TJ", path],
                    cwd=d, stdout=subprocess.PIPE, stderr=subprocess.PIPE, text=True)
                running.append((idx, pr))
                idx += 1
            i, pr = running.pop(0)
            so, se = pr.communicate()
            if pr.returncode != 0:
                raise RuntimeError(f"model evaluation failed ({files[i][0]}): {se[-2000:]}")
            outs[i] = so
    finally:
        shutil.rmtree(d, ignore_errors=True)
    return outs


_tok = re.compile(r"\s*(?:(-?\d+)|([A-Za-z_][\w.']*)|(\[|\]|\(|\)|;|,|#))")


def _tokens(s):
    s = re.sub(r"%\w+", "", s)
    pos = 0
    out = []
    while pos < len(s):
        m = _tok.match(s, pos)
        if not m:
            if s[pos:].strip() == "":
                break
            raise ValueError("cannot tokenise Coq output at: " + s[pos:pos + 40])
        pos = m.end()
        if m.group(1) is not None:
            out.append(("int", int(m.group(1))))
        elif m.group(2) is not None:
            out.append(("id", m.group(2)))
        else:
            out.append(("p", m.group(3)))
    return out


def _parse_term(toks, i):
    # application: atom atom*
    head, i = _parse_atom(toks, i)
    args = []
    while i < len(toks) and not (toks[i][0] == "p" and toks[i][1] in ("]", ")", ";", ",")):
        if toks[i] == ("p", "#"):
            den, i = _parse_atom(toks, i + 1)
            head = Fraction(head, den)
            continue
        a, i = _parse_atom(toks, i)
        args.append(a)
    if args:
        return (head,) + tuple(args), i
    return head, i


def _parse_atom(toks, i):
    k, v = toks[i]
    if k == "int":
        return v, i + 1
    if k == "id":
        if v == "true":
            return True, i + 1
        if v == "false":
            return False, i + 1
        return v, i + 1
    if v == "[":
        items = []
        i += 1
        if toks[i] == ("p", "]"):
            return items, i + 1
        while True:
            t, i = _parse_term(toks, i)
            items.append(t)
            if toks[i] == ("p", ";"):
                i += 1
                continue
            if toks[i] == ("p", "]"):
                return items, i + 1
            raise ValueError("bad list")
    if v == "(":
        items = []
        i += 1
        while True:
            t, i = _parse_term(toks, i)
            items.append(t)
            if toks[i] == ("p", ","):
                i += 1
                continue
            if toks[i] == ("p", ")"):
                break
            raise ValueError("bad tuple")
        if len(items) == 1:
            return items[0], i + 1
        return tuple(items), i + 1
    raise ValueError(f"unexpected token {toks[i]}")


def parse_coq_values(stdout: str):
    """All `= value : type` results printed by Eval commands, parsed into Python values:
    lists -> list, tuples -> tuple, ints, bools, constructors -> str or (str, args...)."""
    vals = []
    for m in re.finditer(r"(?ms)^\s*= (.*?)^\s*: ", stdout):
        toks = _tokens(m.group(1))
        v, i = _parse_term(toks, 0)
        if i != len(toks):
            raise ValueError("trailing tokens in Coq output")
        vals.append(v)
    return vals


def fr(p):
    """(num, den) pair printed by qout -> Fraction"""
    return Fraction(p[0], p[1])


def frvec(v):
    return [fr(p) for p in v]


def frmat(m):
    return [frvec(r) for r in m]


def cq(x) -> str:
    """Python number (int/Fraction/float exactly) -> Coq Q literal"""
    f = Fraction(x)
    return f"(Qmake ({f.numerator})%Z {f.denominator}%positive)"


def cqvec(v) -> str:
    return "[" + "; ".join(cq(x) for x in v) + "]"


def cqmat(m) -> str:
    return "[" + "; ".join(cqvec(r) for r in m) + "]"


def cnat(n) -> str:
    return f"{int(n)}%nat"


def cnatlist(v) -> str:
    return "[" + "; ".join(cnat(x) for x in v) + "]"


def cbool(b) -> str:
    return "true" if b else "false"


def copt(x, f) -> str:
    return "None" if x is None else f"(Some {f(x)})"


CASES_HEADER = """From Coq Require Import QArith ZArith List Bool.
From TJ Require Import Num Linalg NumQ.
Import ListNotations.
Set Printing Width 200.
Set Printing Depth 1000000.
Local Open Scope Z_scope.
"""


# ------------------------------------------------------------------------------------------------
# evidence, replay, verdict
# ------------------------------------------------------------------------------------------------
def load_known_findings():
    p = os.path.join(VERIF, "known_findings.json")
    if not os.path.exists(p):
        return []
    return json.load(open(p)).get("findings", [])


class Check:
    def __init__(self, pid: str, tier: str, seed: int, level="proof"):
        self.pid, self.tier, self.seed, self.level = pid, tier, seed, level
        self.t0 = time.time()
        self.violations = []          # (what, replay_path, no_input)
        self.known = []
        self.cov = {"evaluations": 0, "distinct_nontrivial": 0, "rule": "", "samples": [],
                    "traces_validated_against_impl": 0}
        self.assumptions = []
        self._distinct = set()
        self.notes = {}
        os.makedirs(REPLAYS, exist_ok=True)
        os.makedirs(EVIDENCE, exist_ok=True)
        os.makedirs(SCRATCH, exist_ok=True)

    # -- counting -------------------------------------------------------------------------------
    def count(self, case, nontrivial=True, n=1):
        self.cov["evaluations"] += n
        if nontrivial:
            h = hashlib.sha1(json.dumps(case, sort_keys=True, default=str).encode()).hexdigest()
            self._distinct.add(h)
        if len(self.cov["samples"]) < 4 and (nontrivial or not self.cov["samples"]):
            self.cov["samples"].append(json.loads(json.dumps(case, default=str)))

    def note(self, key, inc=1):
        self.notes[key] = self.notes.get(key, 0) + inc

    # -- obligations ----------------------------------------------------------------------------
    def obligations(self, prop_file=None):
        ob = check_obligations(prop_file or self.pid)
        self.cov["obligations"] = ob["obligations"]
        self.cov["discharged"] = ob["discharged"]
        self.cov["checker_cmd"] = ob["checker_cmd"]
        self.cov["theorems"] = ob["theorems"]
        axioms = sorted({a for t in ob["theorems"] for a in t["axioms"]})
        self.cov["trusted_base"] = TRUSTED_BASE_COMMON + [
            "axioms reported by Print Assumptions (all from Coq's standard library): "
            + (", ".join(axioms) if axioms else "none (closed under the global context)")]
        self.ob_errors = ob["errors"]
        return ob

    def coqchk(self, prop_file=None, timeout=2400):
        """thorough tier: re-check the compiled props file and everything it depends on with the
        independent checker; its context summary (axioms, unsafe features) goes into the evidence"""
        pf = prop_file or self.pid
        p = subprocess.run(["timeout", str(timeout), "coqchk", "-silent", "-o", "-R", "theories", "TJ",
                            f"TJ.props.{pf}"], cwd=COQDIR, capture_output=True, text=True)
        out = p.stdout + p.stderr
        summ = out[out.find("CONTEXT SUMMARY"):] if "CONTEXT SUMMARY" in out else out[-1500:]
        axioms = re.findall(r"(?m)^\s+([A-Za-z_][\w.']*)\s*$", summ.split("* Axioms:")[1].split("* Constants")[0]) \
            if "* Axioms:" in summ else []
        self.cov["coqchk"] = {"exit": p.returncode, "axioms": axioms,
                              "type_in_type": "type-in-type: <none>" in summ,
                              "summary_tail": summ[-800:]}
        bad = [a for a in axioms if a.split(".")[-2:] and ".".join(a.split(".")[-2:]) not in ALLOWED_AXIOMS
               and a not in ALLOWED_AXIOMS]
        if p.returncode != 0:
            self.ob_errors.append("coqchk failed: " + out[-600:])
        elif bad:
            self.ob_errors.append(f"coqchk reports axioms outside the allowed list: {bad}")

    # -- violations -----------------------------------------------------------------------------
    def violation(self, what: str, replay: dict, no_input=False, key=None):
        """Record a violation.  `key` (dict) is matched against known_findings.json."""
        for kf in load_known_findings():
            if kf.get("property") == self.pid and kf.get("status", "open") == "open":
                pred = kf.get("match", {})
                if key is not None and all(key.get(k) == v for k, v in pred.items()):
                    msg = kf.get("what", what)
                    if msg not in self.known:
                        self.known.append(msg)
                    return
        n = len(self.violations)
        path = os.path.join(REPLAYS, f"{self.pid}-{self.tier}-{self.seed}-{n}.json")
        replay = dict(replay)
        replay.update({"property": self.pid, "what": what})
        if no_input:
            replay["no_failing_input_found"] = True
            # name what no longer checks: the correspondence (or proof obligation) and the theorems that rest on it
            replay.setdefault("theorem_file", f"coq/theories/props/{self.pid}.v")
            replay.setdefault("correspondence_or_obligation", what[:300])
        json.dump(replay, open(path, "w"), indent=1, default=str)
        self.violations.append((what, path, no_input))

    def finish(self):
        if getattr(self, "ob_errors", None):
            self.violation(
                "proof obligations not discharged: " + " | ".join(self.ob_errors)[:1500],
                {"kind": "obligation", "errors": self.ob_errors,
                 "theorem_file": f"coq/theories/props/{self.pid}.v"}, no_input=True)
        self.cov["distinct_nontrivial"] = len(self._distinct)
        self.cov.update({"notes": self.notes})
        ev = {"property_id": self.pid, "tier": self.tier, "seed": self.seed, "level": self.level,
              "coverage": self.cov, "assumptions": self.assumptions,
              "wall_s": round(time.time() - self.t0, 2), "violations": len(self.violations),
              "known_findings_seen": self.known}
        json.dump(ev, open(os.path.join(EVIDENCE, f"{self.pid}.json"), "w"), indent=1, default=str)
        for msg in self.known:
            print(f"KNOWN-FINDING: property={self.pid} {msg}")
        seen = 0
        # violations with a concrete failing input first, broken proofs / correspondences after them
        for what, path, no_input in sorted(self.violations, key=lambda v: bool(v[2])):
            seen += 1
            if seen > 5:
                break
            tail = " no-failing-input-found" if no_input else ""
            print(f"# {what[:300]}")
            print(f"VIOLATION property={self.pid} replay={path}{tail}")
        sys.stdout.flush()
        return 1 if self.violations else 0
