"""C01 — backward() deposits the aggregation of the true Jacobian into .grad.
Obligations: coq/theories/props/C01.v.
Correspondence: random autograd programs (ajlib.gen_program); the exact integer Jacobian blocks
come from the harness' own forward-mode evaluation; the Coq model (backward_model at QN) is run
under several enumeration orders of the input set and chunk sizes; every leaf's .grad after the
real backward() must equal the model's, exactly (integers).
Direct oracle: .grad delta == aggregator(J_ref)[own slice] for all deterministic aggregators."""
import random
from fractions import Fraction

import torch

import ajlib
import common
from ajlib import numel
from torchjd import backward
from torchjd.aggregation import (
    MGDA, AlignedMTL, CAGrad, ConFIG, Constant, DualProj, IMTLG, Krum, Mean, Sum, TrimmedMean, UPGrad)

N_QUICK, N_THOROUGH = 120, 1500


# ------------------------------------------------------------------------------------------------
def gen_case(rng: random.Random, idx):
    for _ in range(100):
        prog = ajlib.gen_program(rng)
        cand_out = [t for t in range(prog.n()) if prog.req[t] and not prog.is_leaf[t]]
        if not cand_out:
            continue
        rng.shuffle(cand_out)
        outs, rows = [], 0
        for t in cand_out[:rng.randint(1, 4)]:
            if rows + numel(prog.shapes[t]) <= 24 and numel(prog.shapes[t]) >= 1:
                outs.append(t)
                rows += numel(prog.shapes[t])
        if not outs:
            continue
        leaves = [t for t in range(prog.n()) if prog.is_leaf[t] and prog.req[t]]
        if not leaves:
            continue
        mode = rng.random()
        if mode < 0.2:
            inputs = None
        else:
            k = rng.randint(1, len(leaves))
            inputs = rng.sample(leaves, k)
        m = rows
        a = rng.random()
        if a < 0.6:
            ws = list(range(1, m + 1))
            rng.shuffle(ws)
            ws = [w if rng.random() < 0.8 else -w for w in ws]
            if rng.random() < 0.3:
                ws[rng.randrange(m)] = 0
            agg = ("constant", ws)
        elif a < 0.8:
            agg = ("sum",)
        else:
            agg = ("mean",)
        old = {}
        for t in leaves:
            if rng.random() < 0.4:
                old[t] = [rng.randint(-5, 5) for _ in range(numel(prog.shapes[t]))]
        # 3 and m - 1: chunk sizes that leave a ragged last chunk for most m (ceil vs round vs floor)
        ks = list(dict.fromkeys([None, 1, 2, 3, max(m - 1, 1), m, m + 1]))
        return {"id": idx, "prog": prog.to_json(), "outs": outs, "inputs": inputs, "agg": list(agg),
                "old": {str(k): v for k, v in old.items()}, "ks": ks, "m": m}
    raise RuntimeError("no case")


def mk_agg(agg, dtype):
    if agg[0] == "constant":
        return Constant(torch.tensor([float(w) for w in agg[1]], dtype=dtype))
    if agg[0] == "sum":
        return Sum()
    return Mean()


INPUT_KINDS = ["list", "gen", "tuple", "iter", "dictkeys"]


def wrap_inputs(kind, lst):
    """`inputs` is an Iterable[Tensor]: lists, tuples, generators, one-shot iterators and dict views"""
    if kind == "tuple":
        return tuple(lst)
    if kind == "gen":
        return (x for x in lst)
    if kind == "iter":
        return iter(lst)
    if kind == "dictkeys":
        return {x: None for x in lst}.keys()
    return list(lst)


def run_impl(case, k, dtype, agg_obj=None, inputs_override="same"):
    prog = ajlib.Program.from_json(case["prog"])
    if dtype == "narrow":
        # float32 leaves upcast at once by a float64 computation: Jacobian, weights and .grad are float32
        ts = prog.build(torch.float64, narrow=True)
        dtype = torch.float32
    else:
        ts = prog.build(dtype)
    ajlib.set_old_grads(ts, prog, case["old"], dtype)      # with the leaf's own memory layout
    inputs = case["inputs"] if inputs_override == "same" else inputs_override
    res = {"error": None, "agg_calls": []}
    agg_o = agg_obj or mk_agg(case["agg"], dtype)
    # the statement is about aggregator(J): the aggregator must be APPLIED, once, to the Jacobian
    handle = agg_o.register_forward_hook(
        lambda mod, args, out: res["agg_calls"].append(args[0].detach().to(torch.float64).tolist()))
    try:
        kind = INPUT_KINDS[(case["id"] + (0 if k is None else k) + (dtype == torch.float32)) % len(INPUT_KINDS)]
        backward([ts[o] for o in case["outs"]], agg_o,
                 inputs=None if inputs is None else wrap_inputs(kind, [ts[i] for i in inputs]),
                 parallel_chunk_size=k)
    except Exception as e:  # noqa: BLE001
        res["error"] = type(e).__name__
    finally:
        handle.remove()
    grads = {}
    for t in range(prog.n()):
        if prog.is_leaf[t]:
            g = ts[t].grad
            grads[t] = None if g is None else (tuple(g.shape), [float(x) for x in g.reshape(-1).tolist()])
    res["grads"] = grads
    return res, ts, prog


def effective_inputs(case, prog):
    """the leaf set the call is about: given inputs, or (oracle of C12, computed from the harness'
    own op DAG) the requires-grad leaves that some output reaches"""
    if case["inputs"] is not None:
        return list(dict.fromkeys(case["inputs"]))
    return [t for t in range(prog.n()) if prog.is_leaf[t] and prog.req[t]
            and any(prog.reach(o, t) for o in case["outs"])]


def jac_ref(case, prog, ord_):
    rows = []
    for o in case["outs"]:
        blocks = [prog.D(o, i) for i in ord_]
        for r in range(numel(prog.shapes[o])):
            rows.append([x for b in blocks for x in b[r]])
    return rows


def expected_grads(case, prog):
    """oracle independent of Coq: old + slice of agg(J_ref)"""
    ord_ = effective_inputs(case, prog)
    J = jac_ref(case, prog, ord_)
    v = ajlib.exact_agg(tuple(case["agg"][:1]) + tuple(case["agg"][1:]), J) if ord_ else []
    exp = {}
    off = 0
    for i in ord_:
        n = numel(prog.shapes[i])
        sl = v[off:off + n]
        off += n
        old = case["old"].get(str(i))
        exp[i] = [Fraction(a) + (Fraction(b) if old else 0) for a, b in zip(sl, old or [0] * n)]
    for t in range(prog.n()):
        if prog.is_leaf[t] and t not in exp:
            old = case["old"].get(str(t))
            exp[t] = None if old is None else [Fraction(x) for x in old]
    return exp


# ------------------------------------------------------------------------------------------------
def model_source(cases):
    """one Coq file for a batch of cases"""
    src = ajlib.AJ_HEADER
    for case in cases:
        prog = ajlib.Program.from_json(case["prog"])
        ts = prog.build(torch.float64)
        graph = ajlib.Graph(ts)
        ins = effective_inputs(case, prog)
        Dp = {(o, i): prog.D(o, i) for o in case["outs"] for i in ins}
        name = f"P{case['id']}"
        src += ajlib.c_prog(name, prog, graph, Dp)
        old = {int(t): (100 + int(t), prog.shapes[int(t)], v) for t, v in case["old"].items()}
        st = ajlib.c_store(old)
        tids = ajlib.c_natlist(range(prog.n()))
        A = ajlib.c_agg(tuple(case["agg"]))
        outs = ajlib.c_natlist(case["outs"])
        runs = []
        orders = [ins, list(reversed(ins)), ins[1:] + ins[:1]]
        for k in case["ks"]:
            kk = "None" if k is None else f"(Some {k}%nat)"
            if case["inputs"] is None:
                for sig in ("(fun l => l)", "(@rev nat)"):
                    runs.append(f"show_run (backward_default QN {name} E{name} {A} {sig} {outs} {kk} false {st}) {tids}")
            else:
                for o in orders:
                    runs.append(f"show_run (backward_model QN {name} {A} {outs} {ajlib.c_natlist(o)} {kk} false {st}) {tids}")
        src += "Eval vm_compute in [" + ";\n  ".join(runs) + "].\n"
    return src


def run_models(cases, tag):
    files = []
    B = 12
    for b in range(0, len(cases), B):
        files.append((f"c01_{b}", model_source(cases[b:b + B])))
    outs = common.coq_run_files(files, tag)
    res = {}
    for b, out in zip(range(0, len(cases), B), outs):
        vals = common.parse_coq_values(out)
        for case, v in zip(cases[b:b + B], vals):
            res[case["id"]] = [ajlib.parse_run(x) for x in v]
    return res


def grads_equal(impl, exp, tol=0.0):
    """impl: tid -> None | (shape, floats); exp: tid -> None | [Fraction]"""
    for t, e in exp.items():
        g = impl.get(t)
        if (g is None) != (e is None):
            return False, t
        if g is None:
            continue
        if len(g[1]) != len(e):
            return False, t
        for a, b in zip(g[1], e):
            if tol == 0.0:
                if Fraction(a) != b:
                    return False, t
            elif abs(a - float(b)) > tol * max(1.0, abs(float(b))):
                return False, t
    return True, None


def judge_case(chk, case, model_runs):
    prog = ajlib.Program.from_json(case["prog"])
    exp = expected_grads(case, prog)
    ok = True
    # (1) direct oracle on the implementation, float64 exact and float32 (tolerance)
    for ki, k in enumerate(case["ks"]):
        for dtype, tol in ((torch.float64, 0.0 if case["agg"][0] != "mean" else 1e-12),
                           (torch.float32, 1e-4), ("narrow", 1e-4)):
            if dtype == "narrow" and (case["id"] + ki) % 2:
                continue
            res, _, _ = run_impl(case, k, dtype)
            chk.count({"id": case["id"], "k": k, "dtype": str(dtype), "outs": case["outs"],
                       "inputs": case["inputs"], "agg": case["agg"][0]},
                      nontrivial=len(effective_inputs(case, prog)) > 1 or case["m"] > 1)
            bad = None
            if res["error"] is not None:
                bad = f"backward raised {res['error']} on a valid call"
            else:
                eq, t = grads_equal(res["grads"], exp, tol)
                if not eq:
                    bad = (f".grad of leaf {t} after backward differs from old + own slice of "
                           f"aggregator(J): got {res['grads'].get(t)}, expected "
                           f"{None if exp[t] is None else [str(x) for x in exp[t]]}")
                elif dtype == torch.float64:
                    ord_ = effective_inputs(case, prog)
                    J = jac_ref(case, prog, ord_) if ord_ else []
                    if J and J[0]:
                        calls = res["agg_calls"]
                        cols = lambda M: sorted(tuple(float(M[i][j]) for i in range(len(M))) for j in range(len(M[0])))  # noqa: E731
                        if len(calls) != 1:
                            bad = f"the aggregator was applied {len(calls)} times instead of once to the Jacobian"
                        elif len(calls[0]) != len(J) or not calls[0] or len(calls[0][0]) != len(J[0]) or cols(calls[0]) != cols(J):
                            bad = ("the matrix handed to the aggregator is not the Jacobian (rows = scalars of "
                                   "`tensors` in the given order, columns = scalars of `inputs`)")
            if bad:
                structural = bad.startswith("the aggregator was applied") or bad.startswith("the matrix handed")
                chk.violation(f"C01 {'correspondence (model: A applied to the Jacobian): ' if structural else ''}{bad} "
                              f"(chunk={k}, {dtype})",
                              {"kind": "c01", "case": case, "k": k, "dtype": str(dtype)}, no_input=structural)
                ok = False
                break
        if not ok:
            break
    # (2) correspondence model vs oracle/impl
    if model_runs is not None:
        for mr in model_runs:
            mg = {}
            for t, g in enumerate(mr["grads"]):
                if prog.is_leaf[t]:
                    mg[t] = None if g is None else (g[1], list(g[2]))
            if mr["code"] != 0:
                eq, t = False, "error code %d" % mr["code"]
            else:
                eq, t = grads_equal(mg, exp, 0.0)
                if eq:
                    # shapes must be the tensors' shapes
                    for tt, g in mg.items():
                        if g is not None and tuple(g[0]) != tuple(prog.shapes[tt]):
                            eq, t = False, tt
            if not eq:
                chk.violation(
                    f"correspondence: Coq model backward_model disagrees with the reference update at {t}; "
                    "theorems of props/C01.v no longer describe the code",
                    {"kind": "c01-corr", "case": case, "model": str(mr)[:2000]}, no_input=ok)
                ok = False
                break
        chk.cov["traces_validated_against_impl"] += len(model_runs)
    return ok


OTHER_AGGS = [
    ("UPGrad", lambda: UPGrad()), ("DualProj", lambda: DualProj()), ("MGDA", lambda: MGDA()),
    ("IMTLG", lambda: IMTLG()), ("AlignedMTL", lambda: AlignedMTL()), ("ConFIG", lambda: ConFIG()),
    ("CAGrad", lambda: CAGrad(c=0.5)), ("Krum", lambda: Krum(n_byzantine=0, n_selected=1)),
    ("TrimmedMean", lambda: TrimmedMean(trim_number=0)), ("Mean", lambda: Mean()),
]


def oracle_other_aggs(chk, case, rng):
    """pipeline with the other deterministic aggregators: .grad delta == A(J_ref)[slice], where A
    is the implementation's own aggregator applied to the harness' reference Jacobian"""
    prog = ajlib.Program.from_json(case["prog"])
    ord_ = effective_inputs(case, prog)
    if not ord_:
        return
    J = jac_ref(case, prog, ord_)
    name, mk = rng.choice(OTHER_AGGS)
    if name == "Krum" and len(J) < 3:
        return
    Jt = torch.tensor([[float(x) for x in r] for r in J], dtype=torch.float64)
    try:
        ref = mk()(Jt)
    except Exception:  # noqa: BLE001  (aggregator refuses this matrix: nothing to compare)
        chk.note("other_agg_rejected")
        return
    if not torch.isfinite(ref).all():
        return
    k = rng.choice(case["ks"])
    res, ts, _ = run_impl(case, k, torch.float64, agg_obj=mk())
    chk.count({"id": case["id"], "agg": name, "k": k}, nontrivial=True)
    if res["error"] is not None:
        chk.violation(f"C01 backward with {name} raised {res['error']} on a valid call",
                      {"kind": "c01-agg", "case": case, "agg": name, "k": k})
        return
    off = 0
    scale = max(1.0, float(ref.abs().max()))
    for i in ord_:
        n = numel(prog.shapes[i])
        sl = ref[off:off + n]
        off += n
        old = case["old"].get(str(i))
        want = sl + (torch.tensor(old, dtype=torch.float64) if old else 0)
        got = torch.tensor(res["grads"][i][1], dtype=torch.float64) if res["grads"][i] else None
        # CAGrad's weights come from a conic solver: the two runs see the columns in different orders (the
        # defaulted inputs are a Python set) and agree to the solver's tolerance only (thorough run, seed 12:
        # 1.1e-5 relative on the unchanged tree)
        if got is None or (got - want).abs().max() > (2e-4 if name == "CAGrad" else 1e-6) * scale:
            chk.violation(
                f"C01 with {name}: .grad of leaf {i} is not old + its slice of aggregator(J)",
                {"kind": "c01-agg", "case": case, "agg": name, "k": k,
                 "got": None if got is None else got.tolist(), "want": want.tolist()})
            return


def extreme_intermediate_probe(chk, only=None):
    """J moderate, intermediates extreme: h = (x*b) * 2^-E, y_k = ((k+1) * h * 2^E).sum() with 2^E just below
    the largest finite number of the dtype.  Every row of J is (k+1)*b (exactly), aggregator(J) is
    moderate; anything that sums the rows' cotangents at h before scaling back (one weighted backward
    pass instead of the Jacobian) leaves the floating-point range.  Legal inputs of C01's quantifier."""
    ok = True
    for dtype, E in ((torch.float32, 126), (torch.float64, 1022)):
        for name, mk, w in (("Sum", lambda: Sum(), [1, 1, 1]), ("Mean", lambda: Mean(), [F3, F3, F3]),
                            ("Constant", lambda: Constant(torch.tensor([2.0, 1.0, 1.0], dtype=dtype)), [2, 1, 1])):
            for k in (None, 1, 2):
                key = f"{name}/{str(dtype)}/{k}"
                if only is not None and only != key:
                    continue
                x = torch.tensor([1.0, -2.0, 3.0, 0.5], dtype=dtype, requires_grad=True)
                b = torch.tensor([2.0, 1.0, -1.0, 4.0], dtype=dtype)
                h = (x * b) * (2.0 ** -E)
                ys = [((k_ + 1) * h * (2.0 ** E)).sum() for k_ in range(3)]
                err = None
                try:
                    backward(ys, mk(), inputs=[x], parallel_chunk_size=k)
                except Exception as e:  # noqa: BLE001
                    err = type(e).__name__
                exp = [float(sum(Fraction(wi) * (i + 1) for i, wi in enumerate(w)) * Fraction(float(bj)))
                       for bj in b.tolist()]
                got = None if x.grad is None else x.grad.tolist()
                chk.cov["evaluations"] = chk.cov.get("evaluations", 0) + 1
                if err is not None or got is None or any(not (abs(g - e) <= 1e-5 * max(1.0, abs(e))) for g, e in zip(got, exp)):
                    chk.violation(
                        f"C01 extreme intermediates ({name}, {dtype}, chunk={k}): J has the rows (k+1)*b, "
                        f"aggregator(J) = {exp}, but .grad = {got}" + (f" ({err} raised)" if err else ""),
                        {"kind": "c01-extreme", "key": key})
                    ok = False
    return ok


F3 = Fraction(1, 3)


def run(chk):
    rng = random.Random(1000 + chk.seed)
    extreme_intermediate_probe(chk)
    n = N_QUICK if chk.tier == "quick" else N_THOROUGH
    cases = [gen_case(rng, i) for i in range(n)]
    chk.cov["rule"] = (
        "random DAG programs (1-6+ leaves incl. 0-d, reuse, unused and no-grad leaves, multi-output "
        "ops, detach), 1-4 output tensors, random input subsets/orders or defaulted inputs, "
        "Constant(distinct signed weights)/Sum/Mean, chunk sizes None,1,2,m,m+1, pre-existing .grad, "
        "f64 exact + f32; model run under 3 enumeration orders; non-trivial = >1 input or >1 row")
    models = run_models(cases, "c01")
    dist = {"inputs_none": 0, "n_inputs": {}, "rows": {}, "agg": {}}
    for case in cases:
        dist["inputs_none"] += case["inputs"] is None
        ni = 0 if case["inputs"] is None else len(case["inputs"])
        dist["n_inputs"][ni] = dist["n_inputs"].get(ni, 0) + 1
        dist["rows"][case["m"]] = dist["rows"].get(case["m"], 0) + 1
        dist["agg"][case["agg"][0]] = dist["agg"].get(case["agg"][0], 0) + 1
        judge_case(chk, case, models.get(case["id"]))
        oracle_other_aggs(chk, case, rng)
        if len(chk.violations) >= 3:
            break
    chk.cov["input_distribution"] = dist
    chk.assumptions += [
        "torch.autograd.grad returns the vector-Jacobian product w.r.t. the total derivative "
        "(validated here against the harness' forward-mode integer Jacobian)",
        "vmap(get_vjp) equals row-wise get_vjp"]


def replay(chk, obj):
    if obj.get("kind") == "c01-extreme":
        return extreme_intermediate_probe(chk, only=obj["key"])
    case = obj["case"]
    models = run_models([case], "c01r")
    ok = judge_case(chk, case, models.get(case["id"]))
    if obj.get("kind") == "c01-agg":
        oracle_other_aggs(chk, case, random.Random(0))
        ok = ok and not chk.violations
    return ok
