"""C02 — mtl_backward(): own-task gradients for heads, aggregated Jacobian for the trunk.
Obligations: coq/theories/props/C02.v.
Correspondence: random trunk/heads programs (ajlib.gen_mtl: 1-3 features of any shape, nested or
not, 1-4 tasks with 0-3 own parameters, parameters shared between tasks), explicit or defaulted
parameter lists, Constant(distinct signed weights)/Sum/Mean, all chunk sizes; exact integer
comparison of every leaf's .grad between the implementation, the harness' own exact oracle
(forward-mode Jacobians, independent of torch.autograd) and the Coq model."""
import random

import torch

import ajcheck
import ajlib
from torchjd.aggregation import Constant, DualProj, Krum, UPGrad

N_QUICK, N_THOROUGH = 60, 900


def gen_case(rng, idx):
    # every third program has a head in which two same-shape parameters (often shared with a later task)
    # and the feature enter additively: autograd then hands ONE gradient object to the parameters and to
    # the feature cotangent, which whoever stores it without cloning corrupts by a later in-place +=
    if idx % 6 == 4:
        prog, feats, losses, tasks, shared = ajlib.gen_mtl_alias_pair(rng)
    else:
        # every fifth program has 5-7 tasks, so that chunk sizes 3 and 4 leave a ragged last chunk
        prog, feats, losses, tasks, shared = ajlib.gen_mtl(rng, alias=True if idx % 3 == 1 else None,
                                                           nt=(rng.choice([5, 6, 7]) if idx % 5 == 0 else None))
    if idx % 4 == 3:
        # one loss multiplied by 2^24 + 1 (an integer float32 cannot hold): its gradient w.r.t. the features, and
        # with it a row of the Jacobian of a float64 trunk, does not survive a round trip through float32
        losses = list(losses)
        li = rng.randrange(len(losses))
        losses[li] = prog.op("scale", [losses[li]], c=2 ** 24 + 1)
    dup_loss = idx % 7 == 5 and len(losses) >= 2
    if dup_loss:
        # the SAME loss tensor listed for two tasks (a loss that counts twice, once per group of parameters): one
        # row of the Jacobian per position in `losses`, each task's parameters receive that loss' gradient
        losses = list(losses) + [losses[0]]
        tasks = [list(ps) for ps in tasks] + [list(tasks[1])]
    t = len(losses)
    leaves = [x for x in range(prog.n()) if prog.is_leaf[x] and prog.req[x]]
    calls = []
    # nested features share graph nodes between the tasks' sweeps: a documented limit of
    # retain_graph=False (C13's side condition), so such programs are driven with retain_graph=True
    nested = ajlib.entangled(prog, feats)
    variants = [(None, None), (tasks, shared), (tasks, None), (None, shared), (tasks, [])]   # [] = heads-only update
    if dup_loss:
        variants = [(tasks, shared), (tasks, None), (tasks, [])]
    for k in [None, 1, 2, t + 1] + ([3] if t >= 4 else []) + ([4] if t >= 5 else []):
        tp, sp = rng.choice(variants)
        if tp is not None and rng.random() < 0.3:
            tp = [list(reversed(ps)) for ps in tp]
        if tp is not None and rng.random() < 0.5:
            # the caller decides which task lists which parameter: drop a parameter from one task's
            # list (it may still be listed by another task that uses it), or list a parameter of
            # another task that this task's loss does not depend on (it then receives zeros)
            tp = [list(ps) for ps in tp]
            allq = sorted({q for ps in tp for q in ps})
            ti = rng.randrange(len(tp))
            if tp[ti] and rng.random() < 0.6:
                tp[ti].remove(rng.choice(tp[ti]))
            elif allq:
                q = rng.choice(allq)
                if q not in tp[ti]:
                    tp[ti].append(q)
        if sp is not None and rng.random() < 0.5:
            sp = list(reversed(sp))
        call = {"entry": "mtl", "losses": losses, "features": feats, "tasks": tp, "shared": sp,
                "agg": ajcheck.rand_agg(rng, t), "k": k, "retain": nested or dup_loss,
                "param_kind": rng.choice(["list", "list", "gen", "iter", "tuple", "dictkeys"]),
                "single_feature": len(feats) == 1 and rng.random() < 0.5}
        calls.append(ajcheck.prepare_call(prog, call))
    return {"id": idx, "prog": prog.to_json(), "calls": calls, "old": ajcheck.rand_old(rng, prog, leaves),
            "n_tasks": t, "n_features": len(feats)}


def other_aggs(chk, case, rng):
    """row-order-sensitive aggregators through the whole pipeline: shared-parameter update ==
    aggregator(M_ref)[slice] with M_ref the harness' exact matrix"""
    prog = ajlib.Program.from_json(case["prog"])
    call = dict(rng.choice(case["calls"]))
    sh = call["eff_shared"]
    t = len(call["losses"])
    if not sh:
        return
    M = ajlib.mtl_matrix(prog, call["features"], call["losses"], sh)
    Mt = torch.tensor([[float(x) for x in r] for r in M], dtype=torch.float64)
    pref = torch.tensor([float(i + 1) for i in range(t)], dtype=torch.float64)
    opts = [("UPGrad(pref)", lambda: UPGrad(pref_vector=pref)), ("DualProj(pref)", lambda: DualProj(pref_vector=pref)),
            ("Constant", lambda: Constant(pref))]
    if t >= 3:
        opts.append(("Krum", lambda: Krum(n_byzantine=0, n_selected=1)))
    name, mk = rng.choice(opts)
    try:
        ref = mk()(Mt)
    except Exception:  # noqa: BLE001
        return
    err, grads, _, _ = ajcheck.run_impl_call(case, call, torch.float64, agg_obj=mk())
    chk.count({"id": case["id"], "agg": name}, nontrivial=True)
    if err is not None:
        chk.violation(f"C02 mtl_backward with {name} raised {err} on a valid call",
                      {"kind": "c02-agg", "case": case, "agg": name})
        return
    off = 0
    scale = max(1.0, float(ref.abs().max()))
    for p_ in sh:
        n = ajlib.numel(prog.shapes[p_])
        old = case["old"].get(str(p_))
        want = ref[off:off + n] + (torch.tensor([float(x) for x in old], dtype=torch.float64) if old else 0)
        off += n
        got = grads.get(p_)
        if got is None or (torch.tensor(got[1], dtype=torch.float64) - want).abs().max() > 1e-6 * scale:
            chk.violation(f"C02 with {name}: shared parameter {p_} did not receive its slice of aggregator(M)",
                          {"kind": "c02-agg", "case": case, "agg": name, "got": str(got), "want": want.tolist()})
            return


def run(chk):
    rng = random.Random(2000 + chk.seed)
    n = N_QUICK if chk.tier == "quick" else N_THOROUGH
    cases = [gen_case(rng, i) for i in range(n)]
    chk.cov["rule"] = ("random trunk/heads programs: 1-3 features (any shape, nested or antichain), 1-4 "
                       "tasks with 0-3 own parameters each (shared between tasks in ~30 %), explicit / "
                       "defaulted / reordered parameter lists, Constant(distinct signed weights)/Sum/Mean, "
                       "chunk sizes None,1,2,t+1, pre-existing .grad, f64 exact + f32")
    models = ajcheck.run_models(cases, "c02")
    dist = {"tasks": {}, "features": {}, "zero_param_tasks": 0, "shared_task_params": 0}
    for case in cases:
        dist["tasks"][case["n_tasks"]] = dist["tasks"].get(case["n_tasks"], 0) + 1
        dist["features"][case["n_features"]] = dist["features"].get(case["n_features"], 0) + 1
        tk = case["calls"][0]["eff_tasks"]
        dist["zero_param_tasks"] += any(len(ps) == 0 for ps in tk)
        flat = [q for ps in tk for q in ps]
        dist["shared_task_params"] += len(flat) != len(set(flat))
        ajcheck.check_case(chk, "C02", case, models.get(case["id"]))
        other_aggs(chk, case, rng)
        if len(chk.violations) >= 3:
            break
    chk.cov["input_distribution"] = dist
    chk.assumptions += ["torch.autograd.grad = VJP w.r.t. the total derivative (validated against the "
                        "harness' forward-mode Jacobian)", "vmap(get_vjp) = row-wise get_vjp"]


def replay(chk, obj):
    case = obj["case"]
    models = ajcheck.run_models([case], "c02r")
    ok = ajcheck.check_case(chk, "C02", case, models.get(case["id"]))
    if obj.get("kind") == "c02-agg":
        other_aggs(chk, case, random.Random(0))
    return ok and not chk.violations
