"""C03 — UPGrad / DualProj return the exact (regularised) dual-cone projection.
Obligations: props/C03.v.  Correspondence: AGG-CORR on UPGrad/DualProj (model fed with the exact
active-set QP solution whose KKT certificate Coq re-checks).  Direct oracle: the implementation's
output and weights against the exact minimiser (Fractions), and the two 'consequently' clauses."""
import random as pyrandom
from fractions import Fraction as F

import agglib as A
import aggrun as R
import common
from common import cq, cqmat, cqvec

NAMES = ["UPGrad", "DualProj"]


def exact_weights(name, p, J, s=None):
    m = len(J)
    s = A.sigma_max(J) if s is None else s
    ne, re_ = F(p["norm_eps"]), F(p["reg_eps"])
    u = p.get("pref") or [F(1, m)] * m
    M = A.reg_norm_gramian(A.gram(J), s, ne, re_)
    if name == "DualProj":
        return A.qp_exact(M, u), s, u
    w = [F(0)] * m
    for i in range(m):
        wi = A.qp_exact(M, [u[k] if k == i else F(0) for k in range(m)])
        w = [a + b for a, b in zip(w, wi)]
    return w, s, u


def oracle(chk, c, dt, found, s_exact=None):
    """the property as stated, on the implementation, with an exact rational reference.  s_exact: the largest
    singular value when it is known exactly (then the case s == norm_eps is decided, not skipped)"""
    name, p, J = c["name"], c["params"], c["J"]
    m, n = len(J), len(J[0])
    pref = p.get("pref")
    if pref is not None and len(pref) != m:
        return
    w, s, u = exact_weights(name, p, J, s_exact)
    ne = F(p["norm_eps"])
    if s_exact is None and s != 0 and abs(s - ne) <= F(1, 10**4) * max(s, ne):
        chk.note("skipped_s_near_norm_eps")
        return
    expect = A.vecmat(w, J, n)
    out = A.impl_call(name, p, J, dt)
    wts = A.impl_call(name, p, J, dt, weighting=True)
    tol = {"f64": 1e-7, "f32": 3e-3}[dt]
    bad = None
    if out[0] != "ok" or wts[0] != "ok":
        bad = f"{name} raised {out[1] if out[0]!='ok' else wts[1]} on a finite matrix"
    else:
        usc = max(float(max(abs(x) for x in u)), 1e-300)
        # weights are compared weighted by the (normalised) norm of their row: the weight of a
        # negligible row is not determined at float precision, and does not matter for J^T w
        G_ = A.gram(J)
        rn_ = [min(1.0, (float(G_[i][i]) ** 0.5) / float(s)) if s > 0 else 0.0 for i in range(m)]
        werr = max(abs(a - float(b)) * r for a, b, r in zip(wts[1], w, rn_))
        sc = max(float(A.maxabs(J)) * m * usc, 1e-300)
        oerr = max(abs(a - float(b)) for a, b in zip(out[1], expect))
        chk.notes["max_rel_weight_err_" + dt] = max(chk.notes.get("max_rel_weight_err_" + dt, 0.0),
                                                    werr / max(usc, float(max(abs(x) for x in w))))
        chk.notes["max_rel_out_err_" + dt] = max(chk.notes.get("max_rel_out_err_" + dt, 0.0), oerr / sc)
        if werr > tol * max(usc, float(max(abs(x) for x in w))):
            bad = (f"{name} weights differ from the exact minimiser by {werr:.3e} "
                   f"(s={float(s):.3e}, norm_eps={float(ne)}, reg_eps={float(p['reg_eps'])})")
        elif oerr > tol * sc:
            bad = f"{name} output differs from J^T w (exact minimiser) by {oerr:.3e}"
        else:
            # consequently-clauses, literally
            G = A.gram(J)
            noconf = all(G[i][j] >= 0 for i in range(m) for j in range(m) if i != j)
            if (noconf and all(x >= 0 for x in u)) or s < ne:
                plain = A.vecmat(u, J, n)
                perr = max(abs(a - float(b)) for a, b in zip(out[1], plain))
                if perr > tol * sc:
                    bad = (f"{name}: no conflict / s<norm_eps but output differs from J^T u by "
                           f"{perr:.3e}")
    if bad:
        rep = R.case_json(c, dt)
        rep.update({"kind": "oracle", "expected_weights": [str(x) for x in w],
                    "observed": {"out": out[:2], "weights": wts[:2]}})
        chk.violation(bad, rep)
        found.add((name, A.jsonable(J).__repr__(), dt))


def kkt_certificates(chk, cases):
    """Coq re-checks (exactly, Q instance) the KKT certificate of every QP oracle answer."""
    exprs = []
    for c in cases:
        o = c.get("oracles", {})
        if not o.get("qp"):
            continue
        p = c["params"]
        M = (f"(reg_norm_gramian QN (gram QN {cqmat(c['J'])}) {cq(o['s'])} "
             f"{cq(F(p['norm_eps']))} {cq(F(p['reg_eps']))})")
        items = " && ".join(f"kktb QN M {cqvec(u)} {cqvec(w)}" for u, w in o["qp"])
        exprs.append(f"(let M := {M} in {items})")
    if not exprs:
        return
    files = []
    for k in range(0, len(exprs), 25):
        body = common.CASES_HEADER + A.MODEL_PRELUDE
        body += "Eval vm_compute in [" + "; ".join(exprs[k:k + 25]) + "].\n"
        files.append((f"kkt{k}", body))
    vals = []
    for o in common.coq_run_files(files, "c03kkt"):
        vals += common.parse_coq_values(o)[0]
    chk.notes["kkt_certificates_checked_in_coq"] = len(vals)
    if not all(v is True for v in vals):
        raise RuntimeError("harness QP oracle produced an answer whose KKT certificate fails")


def gen(chk, rng, n):
    cases = []
    for i in range(n):
        name = NAMES[i % 2]
        c = R.gen_case(rng, name)
        cases.append(c)
    return cases


def run(chk):
    rng = pyrandom.Random(chk.seed * 7919 + 3)
    n = 120 if chk.tier == "quick" else 2000
    cases = gen(chk, rng, n)
    kept, dis = R.run_corr(chk, cases, "c03")
    kkt_certificates(chk, kept)
    found = set()
    for c in kept:
        nontrivial = c["cat"].split("+")[0] in ("conflict", "antiparallel", "stationary", "rank_def",
                                                "generic", "bad_scale", "dup_rows", "tall")
        chk.count(R.case_json(c), nontrivial=nontrivial)
        chk.note("cat_" + c["cat"])
        for dt in R.dtypes_for(c):
            oracle(chk, c, dt, found)
    # the projection at the ends of the dtype's range (scale-free by definition: J J^T / s^2)
    n_ext = 0
    for c in kept:
        if len(c["J"]) >= 2 and c["cat"].split("+")[0] in ("conflict", "antiparallel", "generic", "dup_rows") \
                and not any(k[0] == c["name"] for k in found) and n_ext < (6 if chk.tier == "quick" else 60):
            n_ext += 1
            R.extreme_scales(chk, found, c, {"f64": 1e-6, "f32": 5e-3}, "C03", dts=R.dtypes_for(c))
    chk.notes["extreme_scale_cases"] = n_ext
    # s >= norm_eps INCLUDES equality: conflicting matrices whose sigma_max is exactly norm_eps get the projection
    R.exact_boundary(chk, found, ("UPGrad", "DualProj"), "C03", lambda c, dt, s: oracle(chk, c, dt, found, s_exact=s))
    R.report_corr(chk, dis, found)
    chk.cov["rule"] = ("random integer*2^k matrices (categories in notes), UPGrad/DualProj with "
                       "random pref vectors and norm_eps != reg_eps, 30% rescaled so sigma_max "
                       "straddles norm_eps; non-trivial = conflicting/rank-deficient/generic "
                       "categories; float32 and float64 each")
    chk.assumptions += ["quadprog returns the minimiser (checked per case against the exact "
                        "active-set solution whose KKT certificate Coq re-checks)",
                        "sigma_max from a float64 SVD in the harness"]


def replay(chk, obj):
    c = {"name": obj["aggregator"], "params": A.unjson(obj["params"]), "J": A.unjson(obj["J"]),
         "cat": obj.get("cat", "")}
    found = set()
    if obj.get("kind") == "extreme_scale":
        return R.extreme_scales(chk, found, c, {"f64": 1e-6, "f32": 5e-3}, "C03", dts=(obj.get("dtype", "f64"),))
    for dt in ([obj["dtype"]] if obj.get("dtype") else ["f64", "f32"]):
        oracle(chk, c, dt, found)
        print(dt, "impl:", A.impl_call(c["name"], c["params"], c["J"], dt)[:2])
    w, s, u = exact_weights(c["name"], c["params"], c["J"])
    print("exact weights:", [float(x) for x in w], "sigma_max:", float(s))
    return not chk.violations
