"""C04 — non-conflicting aggregators never oppose any objective.
Obligations: props/C04.v.  Correspondence: AGG-CORR on UPGrad, DualProj, MGDA, CAGrad(c>=1).
Direct oracle: min_i (J.A(J))_i >= -allowance with the allowance of the statement, on random
matrices of all categories and exhaustively on {-1,0,1} matrices (2x2, 2x3 quick; up to 3x3
thorough), all iteration budgets for MGDA."""
import itertools
import math
import random as pyrandom
from fractions import Fraction as F

import numpy as np

import agglib as A
import aggrun as R

SLACK = {"f64": 1e-9, "f32": 1e-3}   # rounding slack, in units of s^2 (measured: 1.7e-15 in f64)


minnorm_exact = A.minnorm_exact


def oracle(chk, c, dt, found, s_exact=None):
    name, p, J = c["name"], c["params"], c["J"]
    m, n = len(J), len(J[0])
    s = float(A.sigma_max(J)) if s_exact is None else float(s_exact)
    if s_exact is None and name in ("UPGrad", "DualProj", "CAGrad") and not s >= float(p["norm_eps"]) * (1 + 1e-4):
        return
    out = A.impl_call(name, p, J, dt)
    if out[0] != "ok":
        rep = R.case_json(c, dt)
        rep.update({"kind": "oracle", "observed": out[:2]})
        chk.violation(f"{name} raised {out[1]} on a finite matrix", rep)
        found.add((name, A.jsonable(J).__repr__(), dt))
        return
    a = np.array(out[1], dtype=np.float64)
    Jf = np.array([[float(x) for x in r] for r in J], dtype=np.float64)
    JA = Jf @ a
    slack = SLACK[dt] * s * s
    bad = None
    if name in ("UPGrad", "DualProj"):
        w = A.impl_call(name, p, J, dt, weighting=True)
        wv = np.array(w[1], dtype=np.float64)
        allow = float(p["reg_eps"]) * s * s * np.abs(wv)
        marg = JA + allow + slack
        if (marg < 0).any():
            i = int(np.argmin(marg))
            bad = (f"{name}: (J.A(J))_{i} = {JA[i]:.3e} < -reg_eps*s^2*w_i = {-allow[i]:.3e} "
                   f"(s={s:.3e})")
    elif name == "MGDA":
        G = A.gram(J)
        mn2 = float(minnorm_exact(G))
        a2 = float(a @ a)
        gap = max(0.0, a2 - mn2)
        allow = s * math.sqrt(gap)
        if (JA + allow + slack < 0).any():
            i = int(np.argmin(JA))
            bad = f"MGDA: (J.A(J))_{i} = {JA[i]:.3e} < -s*sqrt(|A|^2-minnorm^2) = {-allow:.3e}"
        elif float(p["epsilon"]) == 0.0 and gap > 8 * s * s / (int(p["max_iters"]) + 2) + slack:
            bad = (f"MGDA(eps=0, iters={p['max_iters']}): sub-optimality {gap:.3e} exceeds "
                   f"8 s^2/(K+2) = {8*s*s/(int(p['max_iters'])+2):.3e}")
        chk.notes["mgda_max_gap_over_bound"] = max(
            chk.notes.get("mgda_max_gap_over_bound", 0.0),
            gap / (8 * s * s / (int(p["max_iters"]) + 2)) if s > 0 else 0.0)
    elif name == "CAGrad":
        sl = max(slack, 1e-6 * s * s)
        if (JA + sl < 0).any():
            i = int(np.argmin(JA))
            bad = f"CAGrad(c={float(p['c'])}): (J.A(J))_{i} = {JA[i]:.3e} < 0 (s={s:.3e})"
    if s > 0:
        chk.notes["worst_margin_over_s2_" + dt] = min(chk.notes.get("worst_margin_over_s2_" + dt, 0.0),
                                                      float(JA.min()) / (s * s))
    if bad:
        rep = R.case_json(c, dt)
        rep.update({"kind": "oracle", "JA": JA.tolist(), "output": out[1]})
        chk.violation(bad, rep)
        found.add((name, A.jsonable(J).__repr__(), dt))


CONFIGS = [("UPGrad", {"pref": None, "norm_eps": F(1, 10**4), "reg_eps": F(1, 10**4)}),
           ("DualProj", {"pref": None, "norm_eps": F(1, 10**4), "reg_eps": F(1, 10**4)}),
           ("MGDA", {"epsilon": F(1, 1000), "max_iters": 100}),
           ("MGDA", {"epsilon": F(0), "max_iters": 50}),
           ("CAGrad", {"c": F(1), "norm_eps": F(1, 10**4)}),
           ("CAGrad", {"c": F(2), "norm_eps": F(1, 10**4)})]


def ternary(m, n):
    for vals in itertools.product((-1, 0, 1), repeat=m * n):
        yield [[F(vals[i * n + j]) for j in range(n)] for i in range(m)]


def gen_params(rng, name, m):
    p = A.gen_params(rng, name, m)
    if name == "CAGrad":
        p["c"] = rng.choice([F(1), F(2), F(3, 2)])
    if name == "MGDA":
        p["max_iters"] = rng.choice([0, 1, 2, 5, 10, 100, 1000])
        p["epsilon"] = rng.choice([F(0), F(1, 1000)])
    return p


def run(chk):
    rng = pyrandom.Random(chk.seed * 104729 + 4)
    found = set()
    names = ["UPGrad", "DualProj", "MGDA", "CAGrad"]
    # (1) random matrices, with model correspondence
    n = 100 if chk.tier == "quick" else 1500
    cases = []
    for i in range(n):
        name = names[i % 4]
        c = R.gen_case(rng, name)
        c["params"] = gen_params(rng, name, len(c["J"]))
        if name in ("UPGrad", "DualProj"):
            pass
        cases.append(c)
    corr_cases = []
    for c in cases:
        cc = dict(c)
        if c["name"] == "MGDA" and c["params"]["max_iters"] > 8:
            continue           # exact rational iterates explode; oracle-only beyond 8 iterations
        corr_cases.append(cc)
    kept, dis = R.run_corr(chk, corr_cases, "c04")
    for c in cases:
        chk.count(R.case_json(c), nontrivial=c["cat"].split("+")[0] not in ("zero", "one_row"))
        chk.note("cat_" + c["cat"])
        for dt in R.dtypes_for(c):
            oracle(chk, c, dt, found)
    # (1b) the same answer, up to the exact factor 2^e, at the ends of the dtype's range: with (1) this is the
    # allowance -reg_eps s^2 w_i (resp. MGDA's) at scales where J J^T leaves the range of the input dtype
    n_ext = 0
    for c in cases:
        if c["name"] in R.EXTREME and len(c["J"]) >= 2 and c["cat"].split("+")[0] in ("conflict", "antiparallel", "generic") \
                and n_ext < (9 if chk.tier == "quick" else 90) and float(A.sigma_max(c["J"])) > 0:
            if c["name"] == "MGDA" and A.mgda_has_tie(c["J"], c["params"]["epsilon"], min(c["params"]["max_iters"], 20), rel=1e-4):
                continue
            n_ext += 1
            R.extreme_scales(chk, found, c, {"f64": 1e-6, "f32": 5e-3}, "C04", dts=R.dtypes_for(c))
    chk.notes["extreme_scale_cases"] = n_ext
    # (1c) "for every matrix with s >= norm_eps": equality included (sigma_max returned exactly by the SVD)
    R.exact_boundary(chk, found, ("UPGrad", "DualProj"), "C04", lambda c, dt, s: oracle(chk, c, dt, found, s_exact=s))
    # (2) exhaustive ternary matrices
    shapes = [(2, 2), (2, 3), (3, 2)] if chk.tier == "quick" else [(2, 2), (2, 3), (3, 2), (3, 3)]
    ex = 0
    for (m, nn) in shapes:
        for J in ternary(m, nn):
            for name, p in CONFIGS:
                if chk.tier == "quick" and name == "CAGrad" and (m, nn) != (2, 2) and rng.random() > 0.1:
                    continue
                c = {"name": name, "params": p, "J": J, "cat": f"ternary{m}x{nn}"}
                oracle(chk, c, "f64", found)
                ex += 1
    # the same family with sigma_max just above norm_eps (scale 2^-13 ~ 1.2e-4 with norm_eps=1e-4)
    sc = F(1, 2 ** 13)
    for (m, nn) in ([(3, 2), (2, 3)] if chk.tier == "quick" else [(2, 2), (2, 3), (3, 2), (3, 3)]):
        for J in ternary(m, nn):
            Js = [[x * sc for x in r] for r in J]
            for name, p in CONFIGS[:2] + (CONFIGS[4:] if chk.tier != "quick" else []):
                c = {"name": name, "params": p, "J": Js, "cat": f"ternary{m}x{nn}*2^-13"}
                oracle(chk, c, "f64", found)
                ex += 1
    chk.cov["evaluations"] += ex
    chk.notes["exhaustive_ternary_evaluations"] = ex
    chk.notes["exhaustive_ternary_shapes"] = str(shapes)
    R.report_corr(chk, dis, found)
    chk.cov["rule"] = ("random integer*2^k matrices over all categories (30% with sigma_max just "
                       "above norm_eps) x {UPGrad, DualProj, MGDA with budgets 0..1000, CAGrad c>=1}, "
                       "f32 and f64; plus ALL {-1,0,1} matrices of the listed shapes for six "
                       "configurations; non-trivial = not all-zero / single-row")
    chk.assumptions += ["float64 reference SVD for s; exact rational min-norm point for MGDA",
                        "rounding slack 1e-9 s^2 (f64) / 1e-3 s^2 (f32) added to every allowance"]


def replay(chk, obj):
    c = {"name": obj["aggregator"], "params": A.unjson(obj["params"]), "J": A.unjson(obj["J"]),
         "cat": obj.get("cat", "")}
    if c["name"] == "MGDA":
        c["params"]["max_iters"] = int(c["params"]["max_iters"])
    found = set()
    if obj.get("kind") == "extreme_scale":
        return R.extreme_scales(chk, found, c, {"f64": 1e-6, "f32": 5e-3}, "C04", dts=(obj.get("dtype", "f64"),))
    oracle(chk, c, obj.get("dtype", "f64"), found)
    print("impl:", A.impl_call(c["name"], c["params"], c["J"], obj.get("dtype", "f64"))[:2])
    return not chk.violations
