"""C05 — with linear aggregators, Jacobian descent coincides with PyTorch autograd.
Obligations: coq/theories/props/C05.v.
Oracle exactly as the property words it: TWIN GRAPHS.  The same generated program is built twice;
one twin is driven by torchjd (backward / mtl_backward with Constant(w) / Sum / Mean), the other
by torch.autograd.backward(tensors, grad_tensors = w split per tensor) (resp. loss_i.backward(
inputs=task_params_i)); every leaf's .grad must coincide (exactly in float64: integer programs and
weights).  Weights include negative and zero entries; inputs are passed as lists, tuples, sets,
generators and iterators.  Third voice: the Coq model on the same calls."""
import random

import torch

import ajcheck
import ajlib
from ajlib import numel

N_QUICK, N_THOROUGH = 70, 1000
_REUSED = {}


def split_weights(prog, tensors, w, dtype):
    out, off = [], 0
    for o in tensors:
        n = numel(prog.shapes[o])
        out.append(torch.tensor([float(x) for x in w[off:off + n]], dtype=dtype).reshape(prog.shapes[o]))
        off += n
    return out


def weights_of(agg, m):
    if agg[0] == "constant":
        return list(agg[1])
    if agg[0] == "sum":
        return [1] * m
    return [1.0 / m] * m


def wrap_inputs(kind, lst):
    if kind == "list":
        return list(lst)
    if kind == "tuple":
        return tuple(lst)
    if kind == "gen":
        return (x for x in lst)
    if kind == "iter":
        return iter(lst)
    if kind == "dictkeys":
        return {x: None for x in lst}.keys()
    return list(lst)


def gen_backward_case(rng, idx):
    import props.c01 as c01
    case = c01.gen_case(rng, idx)
    prog = ajlib.Program.from_json(case["prog"])
    calls = []
    for k in [None, 1, rng.choice([2, 3]), case["m"] + 1]:
        call = {"entry": "backward", "tensors": case["outs"], "inputs": case["inputs"],
                "agg": ajcheck.rand_agg(rng, case["m"], 0.7), "k": k, "retain": False,
                "input_kind": rng.choice(["list", "tuple", "gen", "iter", "dictkeys"])}
        calls.append(ajcheck.prepare_call(prog, call))
    return {"id": idx, "kind": "backward", "prog": case["prog"], "calls": calls, "old": case["old"]}


def gen_mtl_case(rng, idx):
    if idx % 6 == 5:
        prog, feats, losses, tasks, shared = ajlib.gen_mtl_alias_pair(rng)
    else:
        prog, feats, losses, tasks, shared = ajlib.gen_mtl(rng, nested=False, alias=True if idx % 2 == 0 else None)
    t = len(losses)
    leaves = [x for x in range(prog.n()) if prog.is_leaf[x] and prog.req[x]]
    calls = []
    for k in [None, 1, t + 1]:
        tp, sp = rng.choice([(None, None), (tasks, shared), (tasks, shared)])
        if tp is not None and rng.random() < 0.6:
            # the caller decides which task lists which parameter: a parameter used by two heads may be
            # listed by one task only (it then receives d loss_i / dp of THAT task, as
            # loss_i.backward(inputs=task_params_i) gives), or by a task whose loss does not depend on it
            tp = [list(ps) for ps in tp]
            multi = [q for q in {q for ps in tp for q in ps} if sum(q in ps for ps in tp) >= 2]
            if multi and rng.random() < 0.7:
                q = rng.choice(sorted(multi))
                holders = [i for i, ps in enumerate(tp) if q in ps]
                keep = rng.choice(holders)
                for i in holders:
                    if i != keep:
                        tp[i].remove(q)
            else:
                allq = sorted({q for ps in tp for q in ps})
                ti = rng.randrange(len(tp))
                if allq:
                    q = rng.choice(allq)
                    if q not in tp[ti]:
                        tp[ti].append(q)
        call = {"entry": "mtl", "losses": losses, "features": feats, "tasks": tp, "shared": sp,
                "agg": ajcheck.rand_agg(rng, t, 0.7), "k": k, "retain": False,
                "param_kind": rng.choice(["list", "gen", "iter", "tuple"])}
        calls.append(ajcheck.prepare_call(prog, call))
    old = ajcheck.rand_old(rng, prog, leaves)
    if idx % 6 == 5:
        own = {q for ps in tasks for q in ps}
        old = {k: v for k, v in old.items() if int(k) not in own}       # task parameters start without a .grad
    return {"id": idx, "kind": "mtl", "prog": prog.to_json(), "calls": calls, "old": old}


def twin_compare(chk, case, call, dtype, tol):
    prog = ajlib.Program.from_json(case["prog"])
    # twin A: torchjd
    tsA = prog.build(dtype)
    ajlib.set_old_grads(tsA, prog, case["old"], dtype)
    from torchjd import backward, mtl_backward
    # Sum() / Mean() instances are REUSED across all calls of the run (matrices of varying row counts
    # and dtypes): an aggregator is stateless, so a reused instance must behave like a fresh one
    if call["agg"][0] in ("sum", "mean"):
        agg = _REUSED.setdefault((call["agg"][0], str(dtype)), ajlib.mk_agg_obj(call["agg"], dtype))
    else:
        agg = ajlib.mk_agg_obj(call["agg"], dtype)
    # twin B: torch.autograd
    tsB = prog.build(dtype)
    ajlib.set_old_grads(tsB, prog, case["old"], dtype)
    err = None
    try:
        if call["entry"] == "backward":
            m = sum(numel(prog.shapes[o]) for o in call["tensors"])
            w = weights_of(call["agg"], m)
            kind = call.get("input_kind", "list")
            inpA = None if call["inputs"] is None else wrap_inputs(kind, [tsA[i] for i in call["inputs"]])
            backward([tsA[o] for o in call["tensors"]], agg, inputs=inpA, parallel_chunk_size=call["k"])
            inpB = None if call["inputs"] is None else wrap_inputs(kind, [tsB[i] for i in call["inputs"]])
            if call["inputs"] is None or len(call["inputs"]) > 0:
                torch.autograd.backward([tsB[o] for o in call["tensors"]],
                                        grad_tensors=split_weights(prog, call["tensors"], w, dtype),
                                        inputs=None if inpB is None else list(inpB))
        else:
            t = len(call["losses"])
            w = weights_of(call["agg"], t)
            wrap = ajlib._wrap_iterable(call.get("param_kind", "list"))
            mtl_backward([tsA[l] for l in call["losses"]], [tsA[f] for f in call["features"]], agg,
                         tasks_params=None if call["tasks"] is None else [wrap([tsA[q] for q in ps]) for ps in call["tasks"]],
                         shared_params=None if call["shared"] is None else wrap([tsA[p_] for p_ in call["shared"]]),
                         parallel_chunk_size=call["k"])
            # task-specific parameters: loss_i.backward(inputs=task_params_i)
            for l, ps in zip(call["losses"], call["eff_tasks"]):
                if ps:
                    tsB[l].backward(inputs=[tsB[q] for q in ps], retain_graph=True)
            # shared parameters: the weighted losses, through the whole graph
            if call["eff_shared"]:
                torch.autograd.backward([tsB[l] for l in call["losses"]],
                                        grad_tensors=[torch.tensor(float(x), dtype=dtype) for x in w],
                                        inputs=[tsB[p_] for p_ in call["eff_shared"]])
    except Exception as e:  # noqa: BLE001
        err = type(e).__name__
    rep = {"kind": "c05", "case": case, "call_index": case["calls"].index(call), "dtype": str(dtype)}
    if err is not None:
        chk.violation(f"C05 {call['entry']} or its torch.autograd twin raised {err} on a valid call", rep)
        return False
    requested = set(call.get("eff_inputs", [])) | set(call.get("eff_shared", [])) | \
        {q for ps in call.get("eff_tasks", []) for q in ps}
    for t_ in range(prog.n()):
        if not prog.is_leaf[t_]:
            continue
        ga, gb = tsA[t_].grad, tsB[t_].grad
        if ga is None and gb is None:
            continue
        if gb is None and ga is not None and t_ in requested and float(ga.abs().max()) == 0.0 \
                and case["old"].get(str(t_)) is None:
            chk.note("unreachable_requested_input_zeros_vs_None")
            continue
        if ga is None or gb is None or tuple(ga.shape) != tuple(gb.shape) or \
                float((ga - gb).abs().max()) > tol * max(1.0, float(gb.abs().max())):
            chk.violation(
                f"C05 leaf {t_}: torchjd ({call['entry']}, {call['agg'][0]}, chunk={call['k']}, inputs as "
                f"{call.get('input_kind', 'list')}) leaves .grad = {None if ga is None else ga.reshape(-1).tolist()}, "
                f"torch.autograd on the twin graph leaves {None if gb is None else gb.reshape(-1).tolist()}", rep)
            return False
    return True


def run(chk):
    rng = random.Random(5000 + chk.seed)
    n = N_QUICK if chk.tier == "quick" else N_THOROUGH
    cases = []
    for i in range(n):
        cases.append(gen_backward_case(rng, i) if i % 3 != 2 else gen_mtl_case(rng, i))
    chk.cov["rule"] = ("twin graphs: torchjd vs torch.autograd.backward(grad_tensors = weights split per "
                       "tensor) on identical random programs; Constant with signed/zero weights, Sum, Mean; "
                       "backward (2/3) and mtl_backward on antichain features (1/3); inputs given as "
                       "list/tuple/generator/iterator/dict view or defaulted; chunk sizes None,1,2|3,m+1; "
                       "f64 exact, f32 1e-4; plus the Coq model on the same calls")
    models = ajcheck.run_models(cases, "c05")
    dist = {"backward": 0, "mtl": 0, "negative_weight_calls": 0, "input_kinds": {}}
    for case in cases:
        dist[case["kind"]] += 1
        for call in case["calls"]:
            if call["agg"][0] == "constant" and any(w < 0 for w in call["agg"][1]):
                dist["negative_weight_calls"] += 1
            ik = call.get("input_kind", "n/a")
            dist["input_kinds"][ik] = dist["input_kinds"].get(ik, 0) + 1
            for dtype, tol in ((torch.float64, 0.0 if call["agg"][0] != "mean" else 1e-12), (torch.float32, 1e-4)):
                chk.count({"id": case["id"], "entry": call["entry"], "k": call["k"], "agg": call["agg"][0],
                           "dtype": str(dtype)}, nontrivial=True)
                if not twin_compare(chk, case, call, dtype, tol):
                    break
        # third voice: the model == exact oracle == implementation
        ajcheck.check_case(chk, "C05", case, models.get(case["id"]), dtypes=((torch.float64, 0.0),))
        if len(chk.violations) >= 3:
            break
    chk.cov["input_distribution"] = dist
    chk.assumptions += ["twin graphs built from the same instruction list are identical graphs",
                        "an explicitly requested unreachable input gets zeros from torchjd where "
                        "torch.autograd leaves None (stated in props/C05.v)"]


def replay(chk, obj):
    case = obj["case"]
    call = case["calls"][obj["call_index"]]
    ok = twin_compare(chk, case, call, torch.float64, 1e-12)
    models = ajcheck.run_models([case], "c05r")
    ok = ajcheck.check_case(chk, "C05", case, models.get(case["id"]), dtypes=((torch.float64, 0.0),)) and ok
    return ok
