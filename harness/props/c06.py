"""C06 — gradients accumulate; nothing but the requested .grad fields is touched.
Obligations: coq/theories/props/C06.v (frame, in-place accumulation, fresh storage, n-fold,
refinement of the abstract accumulator over all histories).
Correspondence (histories): random histories of backward / mtl_backward calls interleaved with
.grad.zero_(), .grad = None and in-place edits, over random programs with pre-existing .grad of
arbitrary content (including .grad fields that are views of one shared buffer).  Compared with the
Coq model (History.hrun at QN): outcomes, final .grad values and None-ness, and the ALIASING
PARTITION of the .grad fields by storage.  Observed on the implementation only (true by
construction in the model): values of all tensors unchanged, pre-existing .grad objects keep
their identity, torch.autograd.backward is never called."""
import random
from fractions import Fraction

import torch

import ajcheck
import ajlib
import common
from ajlib import numel

N_QUICK, N_THOROUGH = 60, 800


def gen_case(rng, idx):
    if idx % 2 == 0:
        for _ in range(200):
            prog = ajlib.gen_program(rng)
            outs = [t for t in range(prog.n()) if prog.req[t] and not prog.is_leaf[t]]
            leaves = [t for t in range(prog.n()) if prog.is_leaf[t] and prog.req[t]]
            if outs and leaves:
                break
        rng.shuffle(outs)
        outs = outs[:rng.randint(1, 2)]
        while sum(numel(prog.shapes[o]) for o in outs) > 12 and len(outs) > 1:
            outs.pop()
        must = []
        if idx % 4 == 2:
            # two DISTINCT leaves sharing memory (a2 = a.detach().requires_grad_(): same data_ptr, same values),
            # both used by the program and both requested: each is an input of its own
            a = rng.choice(leaves)
            a2 = prog.leaf(prog.shapes[a], [x.v for x in prog.exact[a].flat], True, alias=a)
            outs = outs + [prog.op("sum", [prog.op("mul", [a2, a])])]
            leaves = leaves + [a2]
            must = [a, a2]
        m = sum(numel(prog.shapes[o]) for o in outs)

        def mk_call():
            ins = rng.sample(leaves, rng.randint(1, len(leaves)))
            ins = ins + [x for x in must if x not in ins]
            return ("backward", {"tensors": outs, "inputs": ins, "k": rng.choice([None, 1, 2]), "retain": True,
                                 "agg": ajcheck.rand_agg(rng, m, 0.8)})
    else:
        # every second mtl case has a head with two same-shape parameters entering additively (autograd
        # hands ONE gradient object to both), their .grad absent before the first call
        aliasing = idx % 4 == 1
        prog, feats, losses, tasks, shared = ajlib.gen_mtl(rng, alias=True if aliasing else None)
        leaves = [t for t in range(prog.n()) if prog.is_leaf[t] and prog.req[t]]
        t = len(losses)

        def mk_call():
            if rng.random() < 0.2:      # a heads-only update: explicit empty shared_params
                return ("mtl", {"losses": losses, "features": feats, "tasks": tasks, "shared": [],
                                "k": rng.choice([None, 1, 2]), "retain": True, "agg": ajcheck.rand_agg(rng, t, 0.8)})
            return ("mtl", {"losses": losses, "features": feats, "tasks": tasks, "shared": shared,
                            "k": rng.choice([None, 1, 2]), "retain": True, "agg": ajcheck.rand_agg(rng, t, 0.8)})
    hist = []
    L = rng.randint(1, 6)
    first = mk_call()
    for j in range(L):
        c = rng.random()
        if c < 0.55 or j == 0:
            hist.append(first if rng.random() < 0.6 else mk_call())
        elif c < 0.7:
            hist.append(("zero", {"t": rng.choice(leaves)}))
        elif c < 0.85:
            hist.append(("none", {"t": rng.choice(leaves)}))
        else:
            t_ = rng.choice(leaves)
            hist.append(("edit", {"t": t_, "v": [rng.randint(-9, 9) for _ in range(numel(prog.shapes[t_]))]}))
    if rng.random() < 0.25:               # n identical calls
        hist = [first] * rng.randint(2, 4)
    old = ajcheck.rand_old(rng, prog, leaves, 0.4)
    if idx % 4 == 1:
        own = {q for ps in tasks for q in ps}
        old = {k: v for k, v in old.items() if int(k) not in own}
    # some pre-existing .grad fields are views of one shared flat buffer
    shared_buf = [int(t) for t in old if rng.random() < 0.5]
    shared_buf = shared_buf if len(shared_buf) >= 2 else []
    strided = [int(t) for t in old if int(t) not in shared_buf and len(prog.shapes[int(t)]) >= 1
               and rng.random() < 0.6]
    return {"id": idx, "prog": prog.to_json(), "history": hist, "old": old,
            "shared_buf": shared_buf, "strided": strided}


def to_call(op):
    kind, a = op
    if kind == "backward":
        return {"entry": "backward", "tensors": a["tensors"], "inputs": a["inputs"], "agg": a["agg"],
                "k": a["k"], "retain": a["retain"]}
    return {"entry": "mtl", "losses": a["losses"], "features": a["features"], "tasks": a["tasks"],
            "shared": a["shared"], "agg": a["agg"], "k": a["k"], "retain": a["retain"]}


def run_real(case):
    prog = ajlib.Program.from_json(case["prog"])
    ts = prog.build(torch.float64)
    # pre-existing grads; those in shared_buf are views into one flat buffer
    buf_keys = case["shared_buf"]
    if buf_keys:
        total = sum(numel(prog.shapes[t]) for t in buf_keys)
        buf = torch.zeros(total, dtype=torch.float64)
        off = 0
        for t in buf_keys:
            n = numel(prog.shapes[t])
            view = buf[off:off + n].view(prog.shapes[t])
            view.copy_(torch.tensor([float(x) for x in case["old"][str(t)]], dtype=torch.float64).reshape(prog.shapes[t]))
            ts[t].grad = view
            off += n
    for t, vals in case["old"].items():
        if int(t) not in buf_keys:
            g = torch.tensor([float(v) for v in vals], dtype=torch.float64).reshape(prog.shapes[int(t)])
            if int(t) in case.get("strided", []):
                # a legal but unusual .grad: same values, NON-CONTIGUOUS memory layout (transposed
                # storage for >= 2-d tensors, every second element of a larger buffer for 1-d ones)
                if g.dim() >= 2:
                    g = g.transpose(0, -1).contiguous().transpose(0, -1)
                elif g.dim() == 1:
                    big = torch.zeros(2 * g.numel(), dtype=torch.float64)
                    big[::2] = g
                    g = big[::2]
            ts[int(t)].grad = g
    values_before = [x.detach().clone() for x in ts]
    pre_ids = {t: id(ts[t].grad) for t in range(prog.n()) if prog.is_leaf[t] and ts[t].grad is not None}
    n_backward = [0]
    orig = torch.autograd.backward

    def counting(*a, **k):
        n_backward[0] += 1
        return orig(*a, **k)
    torch.autograd.backward = counting
    codes, identity_lost = [], []
    try:
        for op in case["history"]:
            kind, a = op
            if kind in ("backward", "mtl"):
                live = {t: id(ts[t].grad) for t in range(prog.n()) if prog.is_leaf[t] and ts[t].grad is not None}
                err = ajlib.impl_call(ts, to_call(op), torch.float64)
                codes.append(ajlib.ERR_CODE.get(err, 9))
                for t, i in live.items():
                    if ts[t].grad is None or id(ts[t].grad) != i:
                        identity_lost.append(t)
            elif kind == "zero":
                try:
                    if ts[a["t"]].grad is not None:
                        ts[a["t"]].grad.zero_()
                    codes.append(0)
                except RuntimeError:
                    codes.append(7)      # a .grad that cannot be written in place (overlapping memory)
            elif kind == "none":
                ts[a["t"]].grad = None
                codes.append(0)
            else:
                try:
                    if ts[a["t"]].grad is not None:
                        ts[a["t"]].grad.copy_(torch.tensor([float(x) for x in a["v"]], dtype=torch.float64).reshape(prog.shapes[a["t"]]))
                    codes.append(0)
                except RuntimeError:
                    codes.append(7)
    finally:
        torch.autograd.backward = orig
    values_same = all(torch.equal(x.detach(), y) for x, y in zip(ts, values_before))
    grads = ajlib.snapshot_grads(ts, prog)
    ptr = {t: ts[t].grad.untyped_storage().data_ptr() for t in range(prog.n())
           if prog.is_leaf[t] and ts[t].grad is not None}
    # does a .grad share storage with a non-grad tensor of the program?
    other_ptrs = {x.untyped_storage().data_ptr() for x in ts}
    shares_with_values = [t for t, p_ in ptr.items() if p_ in other_ptrs]
    return {"codes": codes, "grads": grads, "ptr": ptr, "values_same": values_same,
            "identity_lost": identity_lost, "n_backward": n_backward[0], "shares_with_values": shares_with_values}


def partition(d):
    groups = {}
    for t, p_ in d.items():
        groups.setdefault(p_, []).append(t)
    return sorted(sorted(g) for g in groups.values())


def c_hop(op):
    kind, a = op
    nl = ajlib.c_natlist
    if kind == "zero":
        return f"HZero {a['t']}%nat"
    if kind == "none":
        return f"HSetNone {a['t']}%nat"
    if kind == "edit":
        return f"HEdit {a['t']}%nat {common.cqvec(a['v'])}"
    kk = "None" if a["k"] is None else f"(Some {a['k']}%nat)"
    A = ajlib.c_agg(tuple(a["agg"]))
    if kind == "backward":
        return f"HBackward {A} {nl(a['tensors'])} {nl(list(dict.fromkeys(a['inputs'])))} {kk} {ajlib.c_bool(a['retain'])}"
    return (f"HMtl {A} {nl(a['losses'])} {nl(a['features'])} {ajlib.c_listlist(a['tasks'])} "
            f"{nl(a['shared'])} {kk} {ajlib.c_bool(a['retain'])}")


def model_source(cases):
    src = ajlib.AJ_HEADER + "From TJ Require Import History.\n"
    for case in cases:
        prog = ajlib.Program.from_json(case["prog"])
        ts = prog.build(torch.float64)
        graph = ajlib.Graph(ts)
        Dp = {}
        for op in case["history"]:
            if op[0] in ("backward", "mtl"):
                Dp.update(ajlib.call_D(prog, ajcheck.prepare_call(prog, to_call(op))))
        name = f"P{case['id']}"
        src += ajlib.c_prog(name, prog, graph, Dp)
        old = {}
        for t, v in case["old"].items():
            sid = 50 if int(t) in case["shared_buf"] else 100 + int(t)
            old[int(t)] = (sid, prog.shapes[int(t)], v)
        st = ajlib.c_store(old)
        tids = ajlib.c_natlist(range(prog.n()))
        ops = "; ".join(c_hop(op) for op in case["history"])
        src += (f"Eval vm_compute in (let r := hrun QN {name} {st} [{ops}] in "
                f"(fst r, show_grads (snd r) {tids})).\n")
    return src


def judge(chk, case, mv):
    prog = ajlib.Program.from_json(case["prog"])
    r = run_real(case)
    mcodes, mgrads = list(mv[0]), ajlib.parse_grads(mv[1])
    rep = {"kind": "c06", "case": case, "observed_codes": r["codes"]}
    chk.count({"id": case["id"], "history": [op[0] for op in case["history"]]},
              nontrivial=len(case["history"]) > 1)
    chk.cov["traces_validated_against_impl"] += 1
    if any(c == 7 for c in r["codes"]):
        chk.violation("C06 a .grad field left by a call cannot be edited in place: its elements overlap in "
                      "memory (it is not a freshly allocated tensor)", rep)
        return False
    if any(c != 0 for c in r["codes"]):
        chk.violation(f"C06 a valid call of the history raised (codes {r['codes']})", rep)
        return False
    if not r["values_same"]:
        chk.violation("C06 the value of some tensor changed during the history", rep)
        return False
    if r["n_backward"] != 0:
        chk.violation("C06 torch.autograd.backward was called (side effects on .grad outside the requested fields)", rep)
        return False
    if r["identity_lost"]:
        chk.violation(f"C06 a call REPLACED the existing .grad of leaves {r['identity_lost']} instead of adding to it "
                      "in place (references to the old .grad no longer see the update)", rep)
        return False
    if r["shares_with_values"]:
        chk.violation(f"C06 the .grad of leaves {r['shares_with_values']} shares memory with a tensor of the program", rep)
        return False
    # model
    if mcodes != r["codes"]:
        chk.violation(f"correspondence: model outcomes {mcodes} vs observed {r['codes']}", rep, no_input=True)
        return False
    mg = {t: (None if g is None else (g[1], list(g[2]))) for t, g in enumerate(mgrads) if prog.is_leaf[t]}
    exp = {t: (None if g is None else g[1]) for t, g in mg.items()}
    tol = 0.0 if all(op[0] not in ("backward", "mtl") or op[1]["agg"][0] != "mean" for op in case["history"]) else 1e-12
    eq, t = ajlib.grads_match(r["grads"], exp, tol)
    if not eq:
        chk.violation(
            f"C06 after the history the .grad of leaf {t} is {r['grads'].get(t)}; accumulating every call's "
            f"update gives {None if exp[t] is None else [str(x) for x in exp[t]]}", rep)
        return False
    msid = {t: g[0] for t, g in enumerate(mgrads) if g is not None and prog.is_leaf[t]}
    if partition(msid) != partition(r["ptr"]):
        chk.violation(
            f"C06 storage sharing among .grad fields is {partition(r['ptr'])}; in-place accumulation into existing "
            f"fields and fresh storage for created ones gives {partition(msid)}", rep)
        return False
    return True


def run(chk):
    rng = random.Random(6000 + chk.seed)
    n = N_QUICK if chk.tier == "quick" else N_THOROUGH
    cases = [gen_case(rng, i) for i in range(n)]
    chk.cov["rule"] = ("random histories (1-6 ops) of backward / mtl_backward (retained graph, random inputs, "
                       "chunk sizes, Constant/Sum/Mean) with zero_(), = None and in-place edits of .grad in between, "
                       "25 % n-fold repetitions of one call; pre-existing .grad on 40 % of the leaves, half of them "
                       "views of one shared buffer; compared with History.hrun: outcomes, final .grad, storage "
                       "partition; observed: tensor values, .grad identity, no torch.autograd.backward call")
    B = 10
    files = [(f"c06_{b}", model_source(cases[b:b + B])) for b in range(0, len(cases), B)]
    outs = common.coq_run_files(files, "c06")
    dist = {"ops": {}, "n_fold": 0, "shared_buffer_cases": 0}
    for b, out in zip(range(0, len(cases), B), outs):
        vals = common.parse_coq_values(out)
        for case, mv in zip(cases[b:b + B], vals):
            for op in case["history"]:
                dist["ops"][op[0]] = dist["ops"].get(op[0], 0) + 1
            dist["shared_buffer_cases"] += bool(case["shared_buf"])
            judge(chk, case, mv)
            if len(chk.violations) >= 3:
                break
    chk.cov["input_distribution"] = dist
    chk.assumptions += ["torch.autograd.grad has no side effect on .grad (observed: values compared)",
                        "storage identity is observed through untyped_storage().data_ptr()"]


def replay(chk, obj):
    case = obj["case"]
    out = common.coq_run_files([("c06r", model_source([case]))], "c06r")[0]
    return judge(chk, case, common.parse_coq_values(out)[0])
