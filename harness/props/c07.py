"""C07 — parallel_chunk_size is a pure performance knob.
Obligations: coq/theories/props/C07.v.  Correspondence: the model's chunk plan against the sweeps
observed on the implementation (a tensor hook in the trunk fires once per sweep and sees the batch
size), exhaustively for all (m, k), m <= 12, k in {None, 1..m+2}, both retain flags, both entry
points.  Direct oracle: ceil(m/k) sweeps of <= k rows, same update for every k, and chunk size 1 /
single row never needs vmap (a custom Function whose backward cannot be vmapped)."""
import math

import torch
from torch._C._functorch import get_unwrapped, is_batchedtensor, maybe_get_bdim

import common
from torchjd import backward, mtl_backward
from torchjd.aggregation import Constant

MAXM = 12


class NoVmap(torch.autograd.Function):
    """identity whose backward cannot run under vmap (.item() on the incoming gradient)"""

    @staticmethod
    def forward(ctx, x):
        return x.clone()

    @staticmethod
    def backward(ctx, g):
        _ = g.sum().item()
        return g


def _hook(log):
    def hook(g):
        if is_batchedtensor(g):
            log.append([True, int(get_unwrapped(g).shape[maybe_get_bdim(g)])])
        else:
            log.append([False, 1])
    return hook


def _W(m, n=3):
    return torch.tensor([[((3 * i + 5 * j) % 7) - 3 for j in range(n)] for i in range(m)],
                        dtype=torch.float64)


def _split(m):
    """split m rows over 1..3 output tensors (shapes vary with m)"""
    if m == 1:
        return [1]
    if m % 3 == 0:
        return [m // 3, m // 3, m // 3]
    if m % 2 == 0:
        return [m // 2, m // 2]
    return [m - 1, 1]


def row_scales(m, rows):
    """the factor p_i of loss i (its gradient w.r.t. the features is p_i W_i): ordinary, exactly zero for
    every second loss (a task whose loss does not depend on the features right now), or tiny
    (2^-600: far below the point where a 2-norm of the row underflows in float64)"""
    if rows == "zero":
        return [float(i + 1) if i % 2 == 0 else 0.0 for i in range(m)]
    if rows == "tiny":
        return [float(i + 1) if i % 2 == 0 else (i + 1) * 2.0 ** -600 for i in range(m)]
    if rows == "alltiny":
        return [(i + 1) * 2.0 ** -600 for i in range(m)]
    return [float(i + 1) for i in range(m)]


def run_impl(entry, m, k, retain, novmap, rows="normal", aux=False, narrow=False):
    log = []
    x = torch.tensor([1.0, 2.0, 3.0], dtype=torch.float32 if narrow else torch.float64, requires_grad=True)
    # aux: a parameter of the SAME SHAPE as x that is not in the graph, listed explicitly (in front of x): it
    # gets zeros in every row, and must not take x with it in any sweep
    w_aux = torch.tensor([5.0, 6.0, 7.0], dtype=x.dtype, requires_grad=True)
    # narrow: the parameter is float32 and upcast at once by a float64 computation (master weights): the
    # differentiated tensors and the parameters have different dtypes, the Jacobian is float32
    h = x.to(torch.float64) * 2
    if novmap:
        h = NoVmap.apply(h)
    h.register_hook(_hook(log))
    W = _W(m)
    w = torch.arange(1, m + 1, dtype=torch.float64)
    res = {"error": None}
    try:
        if entry == "backward":
            y = W @ h
            parts, outs, s = _split(m), [], 0
            for p in parts:
                t = y[s:s + p]
                if p == 1:
                    t = t.reshape(())
                elif p % 2 == 0:
                    t = t.reshape(2, p // 2)
                outs.append(t)
                s += p
            backward(outs, Constant(w.to(x.dtype)), retain_graph=retain, parallel_chunk_size=k,
                     **({"inputs": [w_aux, x]} if aux else {}))
            expected = 2 * (w @ W)
            res["grads"] = x.grad.tolist() + (w_aux.grad.tolist() if aux else [])
            res["expected"] = expected.tolist() + ([0.0, 0.0, 0.0] if aux else [])
        else:
            f1, f2 = h[:2] * 3, h[2:] * 3
            pvl = row_scales(m, rows)
            ps = [torch.tensor(pvl[i], dtype=torch.float64, requires_grad=True) for i in range(m)]
            f = torch.cat([f1, f2])
            losses = [(W[i] @ f) * ps[i] for i in range(m)]
            mtl_backward(losses, [f1, f2], Constant(w.to(x.dtype)), retain_graph=retain,
                         parallel_chunk_size=k, **({"shared_params": [w_aux, x]} if aux else {}))
            pv = torch.tensor(pvl, dtype=torch.float64)
            expected = 6 * ((w * pv) @ W)
            res["grads"] = x.grad.tolist() + [float(p.grad) for p in ps] + (w_aux.grad.tolist() if aux else [])
            fv = torch.tensor([6.0, 12.0, 18.0], dtype=torch.float64)
            res["expected"] = expected.tolist() + (W @ fv).tolist() + ([0.0, 0.0, 0.0] if aux else [])
    except Exception as e:  # noqa: BLE001
        res["error"] = type(e).__name__
    res["sweeps"] = log
    return res


def cases():
    out = []
    for entry in ("backward", "mtl_backward"):
        for m in range(1, MAXM + 1):
            for k in [None] + list(range(1, m + 3)):
                for retain in (False, True):
                    out.append((entry, m, k, retain))
    return out


def model_plans(cs):
    keys = sorted({(m, k, r) for (_, m, k, r) in cs}, key=lambda t: (t[0], -1 if t[1] is None else t[1], t[2]))
    body = common.CASES_HEADER + "From TJ Require Import Chunk.\nLocal Open Scope nat_scope.\n"
    body += "Definition show (p : list chunk) := map (fun c => (c_start c, c_len c, c_batched c, c_retain c)) p.\n"
    items = "; ".join(
        f"show (chunk_plan {m} {common.copt(k, str)} {common.cbool(r)})" for (m, k, r) in keys)
    body += f"Eval vm_compute in [{items}].\n"
    out = common.coq_run_files([("c07cases", body)], "c07")[0]
    vals = common.parse_coq_values(out)[0]
    return {key: v for key, v in zip(keys, vals)}


def judge(chk, case, plan, novmap, res, rows="normal"):
    entry, m, k, retain = case
    kk = m if k is None else k
    rep = {"kind": "c07", "entry": entry, "m": m, "k": k, "retain": retain, "novmap": novmap,
           "observed": res, "model_plan": plan, "rows": rows}
    model_sweeps = [[bool(b), int(ln)] for (_, ln, b, _) in plan]
    any_batched = any(b for b, _ in model_sweeps)
    bad = None
    if novmap and any_batched:
        return True  # the implementation may or may not cope; nothing is claimed
    if res["error"] is not None:
        bad = f"{entry} m={m} k={k} raised {res['error']}" + (
            " on a graph that vmap cannot handle although differentiation must be sequential"
            if novmap else "")
    else:
        n_exp = math.ceil(m / kk)
        obs = res["sweeps"]
        if len(obs) != n_exp:
            bad = f"{entry} m={m} k={k}: {len(obs)} sweeps, expected ceil(m/k)={n_exp}"
        elif any(r > kk for _, r in obs) or sum(r for _, r in obs) != m:
            bad = f"{entry} m={m} k={k}: sweep sizes {obs} are not <= k covering m rows"
        elif (k == 1 or m == 1) and any(b for b, _ in obs):
            bad = f"{entry} m={m} k={k}: batched (vmap) differentiation used although sequential"
        elif any(abs(a - b) > 1e-9 * max(abs(b), 1.0 if rows.startswith("normal") else 0.0) for a, b in zip(res["grads"], res["expected"])):
            bad = f"{entry} m={m} k={k} ({rows}): update {res['grads']} differs from {res['expected']}"
    if bad and rows in ("zero", "tiny", "alltiny") and "sweeps" in bad:
        bad += f" ({rows} rows: every second loss has a zero / 2^-600-scaled gradient w.r.t. the features)"
    if bad:
        chk.violation(bad, rep)
        return False
    # correspondence with the model's plan (sizes and batched flags, in order)
    if res["sweeps"] != model_sweeps:
        chk.violation(
            f"correspondence: model plan {model_sweeps} vs observed sweeps {res['sweeps']} "
            f"({entry} m={m} k={k}); theorems of props/C07.v no longer describe the code",
            rep, no_input=True)
        return False
    return True


def run(chk):
    cs = cases()
    plans = model_plans(cs)
    chk.cov["rule"] = ("exhaustive: all (m,k), 1<=m<=12, k in {None,1..m+2}, retain in {F,T}, "
                       "entry in {backward, mtl_backward}; non-trivial = more than one sweep or a "
                       "remainder chunk; plus the same grid on a graph that vmap cannot handle "
                       "wherever the model predicts no batched sweep")
    chk.cov["exhaustive"] = True
    for case in cs:
        entry, m, k, retain = case
        plan = plans[(m, k, retain)]
        res = run_impl(entry, m, k, retain, False)
        chk.count({"entry": entry, "m": m, "k": k, "retain": retain, "sweeps": res["sweeps"]},
                  nontrivial=len(plan) > 1)
        chk.cov["traces_validated_against_impl"] += 1
        judge(chk, case, plan, False, res)
        if not any(b for (_, _, b, _) in plan):
            res2 = run_impl(entry, m, k, retain, True)
            chk.count({"entry": entry, "m": m, "k": k, "retain": retain, "novmap": True},
                      nontrivial=True)
            chk.note("novmap_runs")
            judge(chk, case, plan, True, res2)
        if m >= 2 and (m + (0 if k is None else k)) % 2 == 0:
            res4 = run_impl(entry, m, k, retain, False, "normal", aux=True)
            chk.note("aux_same_shape_unused_input")
            judge(chk, case, plan, False, res4, "normal+aux")
        if (m + (0 if k is None else k)) % 2 == 1 or m <= 3:
            res5 = run_impl(entry, m, k, retain, False, "normal", aux=(m % 2 == 0), narrow=True)
            chk.note("narrow_float32_parameter_float64_graph")
            judge(chk, case, plan, False, res5, "normal+narrow" + ("+aux" if m % 2 == 0 else ""))
        if entry == "mtl_backward" and m >= 2:
            # rows of the Jacobian that are exactly zero or tiny are rows all the same: same sweeps, and a
            # relative comparison of the update (the all-tiny variant has nothing else to hide behind)
            for rows in ("zero", "tiny", "alltiny"):
                if (m + (0 if k is None else k)) % 3 != ("zero", "tiny", "alltiny").index(rows) and m > 4:
                    continue
                res3 = run_impl(entry, m, k, retain, False, rows)
                chk.note("rows_" + rows)
                judge(chk, case, plan, False, res3, rows)
    chk.assumptions += [
        "a tensor hook in the trunk fires exactly once per sweep (probed on the unchanged tree)",
        "row-wise vjp of a batch equals the stack of per-row vjps (vmap contract)"]


def replay(chk, obj):
    case = (obj["entry"], obj["m"], obj["k"], obj["retain"])
    plans = model_plans([case])
    rows_ = obj.get("rows", "normal")
    res = run_impl(obj["entry"], obj["m"], obj["k"], obj["retain"], obj.get("novmap", False),
                   rows_.replace("+aux", "").replace("+narrow", ""), aux=rows_.endswith("+aux"),
                   narrow="+narrow" in rows_)
    print("observed:", res)
    print("model plan:", plans[(obj["m"], obj["k"], obj["retain"])])
    ok = judge(chk, case, plans[(obj["m"], obj["k"], obj["retain"])], obj.get("novmap", False), res,
               obj.get("rows", "normal"))
    return ok
