"""C08 — weighted aggregators stay in the row span and only look at the Gramian.
Obligations: props/C08.v.  Correspondence: AGG-CORR on J and on J.Q.  Direct oracle on the
implementation: A(J Q) = A(J) Q for exact rational orthogonal Q (signed permutations, Pythagorean
Givens rotations, integer Householder reflections, dyadic Hadamard matrices), column permutations,
zero-column insertions (1 .. 2^17 columns), row-span residual."""
import math
import random as pyrandom
from fractions import Fraction as F

import numpy as np
import torch

import agglib as A
import aggrun as R

GRAMIAN = ["UPGrad", "DualProj", "MGDA", "PCGrad", "CAGrad", "IMTLG", "AlignedMTL", "ConFIG", "Krum",
           "Mean", "Sum", "Constant", "Random"]
DET_ALL = ["UPGrad", "DualProj", "MGDA", "CAGrad", "IMTLG", "AlignedMTL", "ConFIG", "Krum", "Mean",
           "Sum", "Constant", "TrimmedMean"]
TOL = {"f64": 1e-7, "f32": 5e-3}


def eye(n):
    return [[F(1 if i == j else 0) for j in range(n)] for i in range(n)]


def gen_Q(rng, n):
    Q = eye(n)
    for _ in range(rng.randint(1, 3)):
        kind = rng.choice(["perm", "givens", "householder"]) if n >= 2 else "perm"
        if kind == "perm":
            p = list(range(n))
            rng.shuffle(p)
            P = [[F(rng.choice([-1, 1]) if p[i] == j else 0) for j in range(n)] for i in range(n)]
        elif kind == "givens":
            a, b = rng.sample(range(n), 2)
            c, s = rng.choice([(F(3, 5), F(4, 5)), (F(5, 13), F(12, 13)), (F(8, 17), F(15, 17))])
            P = eye(n)
            P[a][a], P[a][b], P[b][a], P[b][b] = c, s, -s, c
        else:
            v = [F(rng.randint(-3, 3)) for _ in range(n)]
            vv = sum(x * x for x in v)
            if vv == 0:
                continue
            P = [[F(1 if i == j else 0) - 2 * v[i] * v[j] / vv for j in range(n)] for i in range(n)]
        Q = A.matmul(Q, P)
    return Q


def roundf(J, dt):
    """the float tensor actually handed to the implementation, back as exact Fractions"""
    t = A.to_tensor(J, dt)
    return [[F(float(x)) for x in r] for r in t]


def call(name, p, J, dt, seed=0):
    return A.impl_call(name, p, J, dt, seed=seed)


def stable(name, p, J, out):
    """tie-free / unambiguous-rank quantifier.  Decided by EXACT oracles of the harness wherever one exists
    (Krum: score gap; MGDA: Frank-Wolfe decisions; pinv / eigh based: singular-value gaps) and never by the
    implementation under check for those -- a change that makes the implementation unstable would otherwise
    excuse itself.  Continuous aggregators need no filter.  Only CAGrad (conic solver noise at
    stationarity) keeps the perturbation probe: a 1e-11 relative perturbation of the input must not move
    the float64 output by more than 1e-8 relative."""
    if name == "Krum":
        from props.c16 import krum_gap_ok
        return krum_gap_ok(J, p["f"], p["k"])
    if name == "MGDA":
        return not A.mgda_has_tie(J, p["epsilon"], p["max_iters"], rel=1e-4)
    if name in ("IMTLG", "ConFIG", "AlignedMTL"):
        return R.well_conditioned(J, name, p)
    if name != "CAGrad":
        return True
    if not R.well_conditioned(J, name, p):
        return False
    rng = pyrandom.Random(12345)
    Jp = [[x * (1 + F(rng.randint(-1000, 1000), 10 ** 14)) for x in r] for r in J]
    o2 = call(name, p, Jp, "f64")
    if out[0] != "ok" or o2[0] != "ok":
        return out[0] == o2[0]
    sc = max(float(A.maxabs(J)) * len(J), 1e-300)
    return max(abs(a - b) for a, b in zip(out[1], o2[1])) <= 1e-8 * sc


def tolc(name, dt):
    """selections and fixed-weight averages are exact up to a few ulps of the largest entry: the generic
    tolerance would hide the choice of a different row among rows that are close to each other"""
    if name in ("Krum", "TrimmedMean", "Mean", "Sum", "Constant"):
        return {"f64": 1e-12, "f32": 5e-6}[dt]
    return TOL[dt]


def close(a, b, tol, sc):
    return len(a) == len(b) and max((abs(x - y) for x, y in zip(a, b)), default=0.0) <= tol * sc


def report(chk, found, c, dt, what, extra):
    rep = R.case_json(c, dt)
    rep.update({"kind": "oracle"})
    rep.update(extra)
    chk.violation(what, rep)
    found.add((c["name"], A.jsonable(c["J"]).__repr__(), dt))


def transform_checks(chk, rng, c, found):
    name, p, J = c["name"], c["params"], c["J"]
    m, n = len(J), len(J[0])
    for dt in R.dtypes_for(c):
        base = call(name, p, J, dt)
        if base[0] != "ok":
            report(chk, found, c, dt, f"{name} raised {base[1]} on a finite matrix", {"observed": base[:2]})
            continue
        sel = name in ("Krum", "TrimmedMean", "Mean", "Sum", "Constant")
        sc = max(float(A.maxabs(J)) * (1 if sel else m), max(abs(x) for x in base[1]) if sel else 0.0, 1e-300)
        st = stable(name, p, J, call(name, p, J, "f64"))
        if name == "MGDA" and A.mgda_has_tie(J, p["epsilon"], p["max_iters"]):
            st = False
        if not st:
            chk.note("skipped_unstable_" + name)
            continue
        # (1) column permutation (exact)
        perm = list(range(n))
        rng.shuffle(perm)
        Jp = [[r[perm[j]] for j in range(n)] for r in J]
        o = call(name, p, Jp, dt)
        chk.cov["evaluations"] += 1
        if o[0] != "ok" or not close(o[1], [base[1][perm[j]] for j in range(n)], tolc(name, dt), sc):
            report(chk, found, c, dt, f"{name}: permuting the columns changed the result",
                   {"perm": perm, "A_J": base[1], "A_Jperm": o[:2]})
            continue
        # (2) zero-column insertion (exact)
        z = rng.choice([1, 2, 7])
        pos = sorted(rng.sample(range(n + z), z))
        Jz, k = [], 0
        Jz = [[F(0)] * (n + z) for _ in range(m)]
        keep = [j for j in range(n + z) if j not in pos]
        for i in range(m):
            for jj, j in enumerate(keep):
                Jz[i][j] = J[i][jj]
        o = call(name, p, Jz, dt)
        chk.cov["evaluations"] += 1
        exp = [0.0] * (n + z)
        for jj, j in enumerate(keep):
            exp[j] = base[1][jj]
        if o[0] != "ok" or not close(o[1], exp, tolc(name, dt), sc):
            report(chk, found, c, dt, f"{name}: inserting {z} all-zero columns changed the update "
                   "of the other columns", {"zero_positions": pos, "A_J": base[1], "A_Jz": o[:2]})
            continue
        if name == "TrimmedMean":
            continue
        # (3) orthogonal change of coordinates
        Q = gen_Q(rng, n)
        JQ = roundf(A.matmul(J, Q), dt)
        o = call(name, p, JQ, dt)
        chk.cov["evaluations"] += 1
        Qf = np.array([[float(x) for x in r] for r in Q])
        exp = (np.array(base[1]) @ Qf).tolist()
        if o[0] != "ok" or not close(o[1], exp, tolc(name, dt) * 3, sc):
            report(chk, found, c, dt, f"{name}: A(J Q) differs from A(J) Q for an orthogonal Q",
                   {"Q": A.jsonable(Q), "A_J_Q": exp, "A_JQ": o[:2]})
            continue
        # (4) row span
        if m < n:
            Jf = np.array([[float(x) for x in r] for r in J])
            a = np.array(base[1])
            w, *_ = np.linalg.lstsq(Jf.T, a, rcond=None)
            res = float(np.max(np.abs(Jf.T @ w - a)))
            if res > TOL[dt] * sc:
                report(chk, found, c, dt, f"{name}: the result is not in the row span of J "
                       f"(least-squares residual {res:.3e})", {"A_J": base[1]})


def seeded_checks(chk, rng, found):
    """PCGrad and Random under a fixed seed: their draws do not depend on the columns"""
    for name in ("PCGrad", "Random"):
        for _ in range(6):
            J, cat = A.gen_matrix(rng, cat=rng.choice(["conflict", "generic"]), mmax=4, nmax=5)
            if any(all(x == 0 for x in r) for r in J):
                continue
            c = {"name": name, "params": {}, "J": J, "cat": cat}
            m, n = len(J), len(J[0])
            chk.count(R.case_json(c), nontrivial=m > 1)
            for dt in ("f64", "f32"):
                base = call(name, {}, J, dt, seed=7)
                sc = max(float(A.maxabs(J)) * m, 1e-300)
                Q = gen_Q(rng, n)
                o = call(name, {}, roundf(A.matmul(J, Q), dt), dt, seed=7)
                Qf = np.array([[float(x) for x in r] for r in Q])
                exp = (np.array(base[1]) @ Qf).tolist() if base[0] == "ok" else None
                if base[0] != "ok" or o[0] != "ok" or not close(o[1], exp, TOL[dt] * 3, sc):
                    report(chk, found, c, dt, f"{name} (fixed seed): A(J Q) differs from A(J) Q",
                           {"Q": A.jsonable(Q), "A_J_Q": exp, "A_JQ": o[:2]})


def hadamard(k):
    H = np.array([[1]])
    for _ in range(k):
        H = np.block([[H, H], [H, -H]])
    return H


def wide_checks(chk, rng, found):
    """many columns: (a) every entry below norm_eps while sigma_max is above it, rotated by a
    dyadic Hadamard matrix that concentrates the mass; (b) 2^17 all-zero columns appended to an
    ill-conditioned two-row matrix"""
    k = 5
    n = 4 ** k
    H = hadamard(2 * k)                       # n x n, entries +-1, H H^T = n I; Q = H / 2^k
    pat = np.array([[(1 if (j % 3) else -1) for j in range(n)],
                    [(-1 if (j % 5) else 1) * (1 if j % 2 else -1) for j in range(n)]], dtype=np.int64)
    e = -14
    Jn = pat                                   # J = pat * 2^e, entries 6.1e-5 < 1e-4
    JQn = Jn @ H                               # J Q = (pat @ H) * 2^(e-k)
    for name, p in [("UPGrad", {"pref": None, "norm_eps": F(1, 10**4), "reg_eps": F(1, 10**4)}),
                    ("DualProj", {"pref": None, "norm_eps": F(1, 10**4), "reg_eps": F(1, 10**4)}),
                    ("CAGrad", {"c": F(1, 2), "norm_eps": F(1, 10**4)}),
                    ("MGDA", {"epsilon": F(1, 1000), "max_iters": 100}), ("IMTLG", {}),
                    ("AlignedMTL", {"pref": None}), ("ConFIG", {"pref": None}), ("Mean", {})]:
        for dt in ("f64", "f32"):
            tJ = torch.tensor(Jn, dtype=torch.float64).mul(2.0 ** e).to(A.DT[dt])
            tJQ = torch.tensor(JQn, dtype=torch.float64).mul(2.0 ** (e - k)).to(A.DT[dt])
            a = A.impl_call(name, p, None, dt, tensor=tJ)
            b = A.impl_call(name, p, None, dt, tensor=tJQ)
            chk.cov["evaluations"] += 2
            c = {"name": name, "params": p, "J": f"pattern(2x{n}) * 2^{e}", "cat": "wide_tiny_entries"}
            if a[0] != "ok" or b[0] != "ok":
                report(chk, found, c, dt, f"{name} raised on a wide matrix", {"observed": [a[:2], b[:2]]})
                continue
            exp = (np.array(a[1]) @ (H / 2.0 ** k)).tolist()
            sc = 2.0 ** e * math.sqrt(n) * 2
            if not close(b[1], exp, TOL[dt] * 3, sc):
                err = max(abs(x - y) for x, y in zip(b[1], exp))
                report(chk, found, c, dt,
                       f"{name}: A(J Q) differs from A(J) Q (rel {err/sc:.3e}) for a 2x{n} matrix with "
                       f"all entries below norm_eps and Q = Hadamard/2^{k}",
                       {"note": "J[i][j] = pattern * 2^-14; replay recomputes it"})
    chk.count({"wide": f"2x{n} Hadamard"}, nontrivial=True)
    # (b) zero columns in bulk
    J = [[F(10), F(10), F(1)], [F(10), F(11), F(0)]]
    for name in DET_ALL:
        p = A.gen_params(pyrandom.Random(1), name, 2)
        if name == "Krum" or name == "TrimmedMean":
            continue
        if name in ("UPGrad", "DualProj", "ConFIG", "AlignedMTL"):
            p["pref"] = None
        for dt in ("f64", "f32"):
            base = call(name, p, J, dt)
            for z in (1000, 2 ** 17):
                t = torch.zeros(2, 3 + z, dtype=A.DT[dt])
                t[:, :3] = A.to_tensor(J, dt)
                o = A.impl_call(name, p, None, dt, tensor=t)
                chk.cov["evaluations"] += 1
                c = {"name": name, "params": p, "J": J, "cat": f"zero_columns_{z}"}
                ok = (base[0] == "ok" and o[0] == "ok" and
                      close(o[1][:3], base[1], TOL[dt], 30.0) and
                      max(abs(x) for x in o[1][3:]) <= TOL[dt] * 30.0)
                if not ok:
                    report(chk, found, c, dt, f"{name}: appending {z} all-zero columns changed the "
                           f"update of the other columns", {"A_J": base[:2], "A_Jz_head": (o[1][:3] if o[0] == 'ok' else o[:2])})
    chk.count({"wide": "zero columns 1000, 2^17"}, nontrivial=True)
    # (b2) WIDE DENSE matrices whose last columns carry information (n = 1500, 2500: not a multiple of any
    # power-of-two block size): column reversal, a rotation by 37 columns, and zero columns inserted IN FRONT.
    # Blocked / chunked Gramians, unfold() dropping a tail, or anything keyed on column position shows here.
    for n in (1500, 2500):
        m = 3
        Jn = np.array([[((i * 7 + j * 3 + (j * j) % 11 + (5 if j >= n - 200 and i == 1 else 0)) % 9) - 4 for j in range(n)]
                       for i in range(m)], dtype=np.float64)
        Jn[2, n - 100:] *= 3                                   # the tail matters
        for name in DET_ALL:
            p = A.gen_params(pyrandom.Random(2), name, m)
            if name in ("UPGrad", "DualProj", "ConFIG", "AlignedMTL"):
                p["pref"] = None
            if name == "Krum":
                p = {"f": 0, "k": 1}
            if name == "TrimmedMean":
                p = {"b": 1}
            if name == "MGDA":
                p["max_iters"] = min(p["max_iters"], 50)
            for dt in ("f64", "f32"):
                tJ = torch.tensor(Jn, dtype=A.DT[dt])
                base = A.impl_call(name, p, None, dt, tensor=tJ)
                if base[0] != "ok":
                    report(chk, found, {"name": name, "params": p, "J": f"dense(3x{n})", "cat": "wide_dense"}, dt,
                           f"{name} raised {base[1]} on a wide dense matrix", {})
                    continue
                sc = max(abs(x) for x in base[1]) or 1.0
                variants = {"reversed": list(range(n - 1, -1, -1)), "rotated by 37": [(j + 37) % n for j in range(n)]}
                for vname, perm in variants.items():
                    o = A.impl_call(name, p, None, dt, tensor=tJ[:, perm].contiguous())
                    chk.cov["evaluations"] += 1
                    exp = [base[1][perm[j]] for j in range(n)]
                    if o[0] != "ok" or not close(o[1], exp, tolc(name, dt) * 3, sc):
                        err = max(abs(x - y) for x, y in zip(o[1], exp)) / sc if o[0] == "ok" else float("inf")
                        report(chk, found, {"name": name, "params": p, "J": f"dense(3x{n})", "cat": "wide_dense"}, dt,
                               f"{name}: columns {vname} changed the result on a dense 3x{n} matrix (rel {err:.3e})", {})
                        break
                tz = torch.zeros(m, n + 100, dtype=A.DT[dt])
                tz[:, 100:] = tJ
                o = A.impl_call(name, p, None, dt, tensor=tz)
                chk.cov["evaluations"] += 1
                if o[0] != "ok" or not close(o[1][100:], base[1], tolc(name, dt) * 3, sc) or max(abs(x) for x in o[1][:100]) > tolc(name, dt) * sc:
                    report(chk, found, {"name": name, "params": p, "J": f"dense(3x{n})", "cat": "wide_dense"}, dt,
                           f"{name}: 100 all-zero columns inserted IN FRONT of a dense 3x{n} matrix changed the update of the others", {})
    chk.count({"wide": "dense 3x1500, 3x2500: reversal, rotation, zero columns in front"}, nontrivial=True)
    # (c) the pseudo-inverse / eigh based aggregators (+ Mean as a control) on MODEL-SIZED Jacobians, float32:
    # a well-conditioned and a moderately ill-conditioned (sigma ratio 6.7e-3, far above float32
    # resolution) two-row matrix followed by 2^17 and by 9.4e6 all-zero columns.  A rank decision whose
    # tolerance grows with the number of COLUMNS (max(m, n) * eps reaches 1 at n = 8.4e6 in float32)
    # makes parameters that influence nothing change -- or annihilate -- the update of the others.
    for J in ([[F(1), F(2), F(0)], [F(0), F(1), F(3)]], [[F(64), F(64), F(1)], [F(64), F(65), F(0)]]):
        for name, p in (("ConFIG", {"pref": None}), ("ConFIG", {"pref": [F(1), F(3)]}), ("IMTLG", {}),
                        ("AlignedMTL", {"pref": None}), ("AlignedMTL", {"pref": [F(1), F(3)]}), ("Mean", {})):
            base = call(name, p, J, "f64")
            big = chk.tier != "quick" or (J[0][0] == 1 and p.get("pref") is None and name != "Mean")
            for z in ((2 ** 17, 2 ** 23 + 2 ** 20) if big else (2 ** 17,)):
                t = torch.zeros(2, 3 + z, dtype=torch.float32)
                t[:, :3] = A.to_tensor(J, "f32")
                o = A.impl_call(name, p, None, "f32", tensor=t)
                del t
                chk.cov["evaluations"] += 1
                c = {"name": name, "params": p, "J": J, "cat": f"zero_columns_{z}"}
                sc = max((abs(x) for x in base[1]), default=0.0) if base[0] == "ok" else 1.0
                ok = (base[0] == "ok" and o[0] == "ok" and close(o[1][:3], base[1], TOL["f32"] * 2, sc) and
                      max(abs(x) for x in o[1][3:]) <= TOL["f32"] * sc)
                if not ok:
                    report(chk, found, c, "f32", f"{name}: appending {z} all-zero columns changed the "
                           f"update of the other columns (float32)",
                           {"A_J": base[:2], "A_Jz_head": (o[1][:3] if o[0] == 'ok' else o[:2])})
    chk.count({"wide": "zero columns 2^17, 2^23+2^20 (float32; pinv/eigh based)"}, nontrivial=True)


def run(chk):
    rng = pyrandom.Random(chk.seed * 49979687 + 8)
    q = chk.tier == "quick"
    found = set()
    cases = []
    for i in range(72 if q else 1200):
        name = DET_ALL[i % len(DET_ALL)]
        rnd = i // len(DET_ALL)
        c = R.gen_case(rng, name, mmax=4, nmax=5, cat=("sparse_rows" if rnd == 0 else "one_col" if rnd == 1 else rng.choice(
            ["generic", "generic", "conflict", "rank_def", "bad_scale", "dup_rows", "stationary", "one_row",
             "sparse_rows", "one_col"])),
            boundary=False)
        cases.append(c)
    # many workers around a common mean (more rows than any unit test uses, norms 1e4 times the pairwise
    # distances): Krum, TrimmedMean and Mean on 26-30 clustered rows
    for name in ("Krum", "Krum", "Krum", "Krum", "TrimmedMean", "Mean"):
        for _ in range(50):
            m, n = rng.randint(26, 30), rng.randint(3, 5)
            base = [rng.choice([-1, 1]) * 4096 * rng.randint(2, 16) for _ in range(n)]
            J = [[F(base[j] + rng.randint(-6, 6)) for j in range(n)] for _ in range(m)]
            p = {"f": rng.randint(1, 8), "k": rng.randint(1, 3)} if name == "Krum" else A.gen_params(rng, name, m)
            if name == "Krum":
                from props.c16 import krum_gap_ok
                if not krum_gap_ok(J, p["f"], p["k"]):
                    continue
            cases.append({"name": name, "params": p, "J": J, "cat": "clustered_many_rows"})
            break
    # correspondence on J and J.Q (inputs rounded to the dtype so model and code see the same J)
    corr = []
    for c in cases:
        if c["name"] == "TrimmedMean" or len(c["J"][0]) < 2:
            corr.append(c)
            continue
        Q = gen_Q(rng, len(c["J"][0]))
        JQ = roundf(A.matmul(c["J"], Q), "f32")
        if c["name"] == "MGDA":
            c["params"]["max_iters"] = min(c["params"]["max_iters"], 5)
        if R.well_conditioned(JQ, c["name"], c["params"]):
            corr.append({"name": c["name"], "params": c["params"], "J": JQ, "cat": c["cat"] + "+Q"})
    corr = [c for c in corr if not (c["name"] == "Krum" and not __import__("props.c16", fromlist=["x"]).krum_gap_ok(
        c["J"], c["params"]["f"], c["params"]["k"]))]
    kept, dis = R.run_corr(chk, corr, "c08")
    for c in cases:
        chk.count(R.case_json(c), nontrivial=len(c["J"]) > 1 and len(c["J"][0]) > 1)
        transform_checks(chk, rng, c, found)
    seeded_checks(chk, rng, found)
    wide_checks(chk, rng, found)
    R.report_corr(chk, dis, found)
    chk.cov["rule"] = ("12 deterministic aggregators x random matrices (m<=4,n<=5, all categories): "
                       "column permutation, zero-column insertion, exact rational orthogonal Q "
                       "(signed perms, Pythagorean Givens, Householder), row-span residual; PCGrad/"
                       "Random under a fixed seed; 2x1024 matrix with entries below norm_eps rotated by "
                       "a dyadic Hadamard; 1000 and 2^17 appended zero columns; non-trivial = more "
                       "than one row and column; numerically unstable (tie/ambiguous-rank) inputs are "
                       "skipped by a perturbation filter and counted")
    chk.assumptions += ["J.Q is rounded to the dtype before being handed to the implementation "
                        "(1e-16 / 6e-8 relative), far below the tolerances"]


def replay(chk, obj):
    found = set()
    if not isinstance(obj.get("J"), list):
        wide_checks(chk, pyrandom.Random(0), found)
        return not chk.violations
    c = {"name": obj["aggregator"], "params": A.unjson(obj["params"]), "J": A.unjson(obj["J"]),
         "cat": obj.get("cat", "")}
    for k in ("max_iters", "f", "k", "b"):
        if k in c["params"]:
            c["params"][k] = int(c["params"][k])
    if str(c["cat"]).startswith("zero_columns"):
        wide_checks(chk, pyrandom.Random(0), found)
    else:
        for s in range(5):
            transform_checks(chk, pyrandom.Random(s), c, found)
    return not chk.violations
