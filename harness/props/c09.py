"""C09 — linear under scaling.
Obligations: props/C09.v (fixed-weight family).  Direct oracle on the implementation:
A(diag(a c1 + b c2) J) = a A(diag(c1) J) + b A(diag(c2) J) for Mean, Sum, Constant, ConFIG, and
PCGrad / Random under a fixed seed, with c over 2^-10..2^10 (exact scalings); UPGrad: defect
<= K sqrt(reg_eps) den on the ladder reg_eps = 1e-2..1e-12 and vanishing at 1e-16."""
import math
import random as pyrandom
from fractions import Fraction as F

import numpy as np

import agglib as A
import aggrun as R

EXACT = ["Mean", "Sum", "Constant", "ConFIG", "PCGrad", "Random"]
TOL = {"f64": 1e-9, "f32": 2e-4}
# measured on the unchanged tree (thorough run, seed 0..2, 3 x 1800 evaluations): the ratio
# defect / (sqrt(reg_eps) * den) peaked at 74; K is 10x that.
K_UPGRAD = 740.0


def scale_rows(c, J):
    return [[ci * x for x in r] for ci, r in zip(c, J)]


def gen_c(rng, m, hi=10):
    return [F(2) ** rng.randint(-10, hi) for _ in range(m)]


def lincomb(a, x, b, y):
    return [float(a) * p + float(b) * q for p, q in zip(x, y)]


def exact_family(chk, rng, n_cases, found):
    for i in range(n_cases):
        name = EXACT[i % len(EXACT)]
        cat = rng.choice(["generic", "conflict", "conflict", "antiparallel", "dup_rows", "rank_def", "one_row"])
        if [-46, -36, 40, 0, -9, 3][(i // len(EXACT)) % 6] == -9:
            cat = "conflict"
        J, cat = A.gen_matrix(rng, cat=cat, mmax=4, nmax=5, scale_exp=[-46, -36, 40, 0, -9, 3][(i // len(EXACT)) % 6])   # every aggregator at every scale
        if name in ("ConFIG", "PCGrad") and any(all(x == 0 for x in r) for r in J):
            continue
        m = len(J)
        p = A.gen_params(rng, name, m)
        if name == "ConFIG" and not R.well_conditioned(J, name, p):
            # pinv(units) @ weights cancels exactly (e.g. antiparallel unit rows with weights summing to
            # zero along them): the code normalises rounding noise there - a point of discontinuity,
            # outside the property's "finite matrices on which the aggregator is continuous" reading;
            # found by the thorough run with seed 11 on the unchanged tree, skipped and counted
            chk.note("skipped_config_discontinuity")
            continue
        # at the tiny global scale the row factors stay <= 1, so that EVERY row norm is below 1e-12
        tiny = [-46, -36, 40, 0, -9, 3][(i // len(EXACT)) % 6] == -46
        c1, c2 = gen_c(rng, m, 0 if tiny else 10), gen_c(rng, m, 0 if tiny else 10)
        a, b = (F(2) ** rng.randint(-3, 0), F(rng.randint(1, 4), 4)) if tiny else (F(2) ** rng.randint(-3, 3), F(rng.randint(1, 7), 4))
        if [-46, -36, 40, 0, -9, 3][(i // len(EXACT)) % 6] == -9 and m >= 2:
            # not left to chance: one row of diag(c1) J far below norm 1e-4, its neighbour far above
            c1[1], c2[1] = F(1, 2 ** 10), F(2) ** rng.randint(2, 6)     # tiny under c1 only: the three scalings differ
            c1[0], c2[0] = F(2) ** rng.randint(3, 8), F(2) ** rng.randint(3, 8)
        c3 = [a * x + b * y for x, y in zip(c1, c2)]
        c = {"name": name, "params": p, "J": J, "cat": cat}
        chk.count(R.case_json(c) | {"c1": A.jsonable(c1), "c2": A.jsonable(c2), "a": str(a), "b": str(b)},
                  nontrivial=m > 1)
        for dt in ("f64", "f32"):
            o1 = A.impl_call(name, p, scale_rows(c1, J), dt, seed=11)
            o2 = A.impl_call(name, p, scale_rows(c2, J), dt, seed=11)
            o3 = A.impl_call(name, p, scale_rows(c3, J), dt, seed=11)
            chk.cov["traces_validated_against_impl"] += 3
            if not (o1[0] == o2[0] == o3[0] == "ok"):
                rep = R.case_json(c, dt)
                rep.update({"kind": "oracle", "c1": A.jsonable(c1), "c2": A.jsonable(c2), "a": str(a),
                            "b": str(b), "observed": [o1[:2], o2[:2], o3[:2]]})
                chk.violation(f"{name} raised on a finite matrix", rep)
                continue
            exp = lincomb(a, o1[1], b, o2[1])
            # scale of the INPUTS (outputs may cancel to zero, e.g. exactly antiparallel rows)
            sc = max(float(a * A.maxabs(scale_rows(c1, J))), float(b * A.maxabs(scale_rows(c2, J))),
                     float(A.maxabs(scale_rows(c3, J))), 1e-300) * m
            err = max(abs(x - y) for x, y in zip(o3[1], exp))
            if err > TOL[dt] * sc:
                rep = R.case_json(c, dt)
                rep.update({"kind": "oracle", "c1": A.jsonable(c1), "c2": A.jsonable(c2), "a": str(a),
                            "b": str(b), "lhs": o3[1], "rhs": exp})
                chk.violation(f"{name}: c -> A(diag(c) J) is not linear on positive vectors "
                              f"(relative defect {err/sc:.3e})", rep)
                found.add((name, A.jsonable(J).__repr__(), dt))


def small_row_family(chk, found):
    """deterministic: ONE row of diag(c1) J is tiny (2^-10 ... 2^-24 times the others) while diag(c2) J is balanced.
    The correction a row forces on a conflicting one does not depend on its length, so a row may be short but is
    never "null": thresholds on norms (absolute tolerances, isclose to zero, eps in a normalisation) show here."""
    mats = [[[1, 2, -1], [-2, F(1, 2), 1]], [[-4, 1, 1], [6, 1, 1]], [[3, -1, 2], [-3, 2, -1], [1, 1, -4]],
            [[2, 0, -1, 1], [-1, 1, 2, -2], [-2, -1, 0, 1]]]
    # every matrix also at the global scale 2^-36 (entries ~1e-11): the short row then has a norm below 1e-12, the
    # default eps of torch.nn.functional.normalize and of many "is it zero" tests, while the others are above it
    for J0, g in [(J0, g) for J0 in mats for g in (0, 36)]:
        J = [[F(x) / 2 ** g for x in r] for r in J0]
        m = len(J)
        for name in ("PCGrad", "ConFIG", "Mean", "Sum", "Random"):
            for j in range(m):
                for k in ((10, 14, 18, 24) if g == 0 else (10, 14)):
                    c1 = [F(1)] * m
                    c1[j] = F(1, 2 ** k)
                    c2 = [F(1) + F(i, 4) for i in range(m)]
                    a, b = F(3, 2), F(3, 4)
                    c3 = [a * x + b * y for x, y in zip(c1, c2)]
                    p = A.gen_params(pyrandom.Random(3), name, m)
                    if name == "ConFIG":
                        p = {"pref": None}
                    for dt in ("f64", "f32"):
                        o = [A.impl_call(name, p, scale_rows(c, J), dt, seed=11) for c in (c1, c2, c3)]
                        chk.cov["evaluations"] += 3
                        if not all(x[0] == "ok" for x in o):
                            continue
                        exp = lincomb(a, o[0][1], b, o[1][1])
                        sc = float(A.maxabs(scale_rows(c3, J))) * m
                        err = max(abs(x - y) for x, y in zip(o[2][1], exp))
                        if err > TOL[dt] * sc:
                            c = {"name": name, "params": p, "J": J, "cat": "small_row"}
                            rep = R.case_json(c, dt)
                            rep.update({"kind": "oracle", "c1": A.jsonable(c1), "c2": A.jsonable(c2), "a": str(a),
                                        "b": str(b), "lhs": o[2][1], "rhs": exp})
                            chk.violation(f"{name}: c -> A(diag(c) J) is not linear on positive vectors when row {j} of "
                                          f"diag(c1) J is 2^-{k} times the others (relative defect {err/sc:.3e})", rep)
                            found.add((name, A.jsonable(J).__repr__(), dt))
                            return
    chk.count({"small_row_family": "4 matrices x global scales {1, 2^-36} x 5 aggregators x rows x 2^-10..2^-24"}, nontrivial=True)


def upgrad_ladder(chk, rng, n_cases, found):
    ladder = [F(1, 10 ** k) for k in (2, 4, 6, 8, 10, 12)]
    worst = 0.0
    for i in range(n_cases):
        while True:
            cat = rng.choice(["conflict", "antiparallel", "generic", "conflict"])
            J, cat = A.gen_matrix(rng, cat=cat, mmax=3, nmax=5, scale_exp=0)
            if len(J) >= 2 and A.rank_exact(J) == len(J):
                break
        m = len(J)
        pref = A.gen_pref(rng, m, positive=True)
        c1, c2 = gen_c(rng, m), gen_c(rng, m)
        a, b = F(2) ** rng.randint(-2, 2), F(rng.randint(1, 7), 4)
        c3 = [a * x + b * y for x, y in zip(c1, c2)]
        # norm_eps only selects the branch (largest singular value vs norm_eps); it is varied so that
        # smaller singular values of the scaled matrices fall below it while the largest stays above
        smin = min(float(A.sigma_max(scale_rows(cc, J))) for cc in (c1, c2, c3))
        ne = rng.choice([F(1, 10 ** 4), F(1, 10 ** 2), F(1, 20), F(1, 10 ** 4)])
        if smin < 4 * float(ne):
            ne = F(1, 10 ** 4)
        if i % 2 == 0:
            # not left to chance: put norm_eps BETWEEN the second singular value of one of the scaled matrices
            # and the smallest of the three largest ones (norm_eps is compared with sigma_max only)
            import numpy as np
            s2 = min(float(np.linalg.svd(np.array([[float(x) for x in r] for r in scale_rows(cc, J)]),
                                         compute_uv=False)[1]) for cc in (c1, c2, c3))
            if 0 < s2 < smin / 64:
                ne = F(math.sqrt(s2 * smin / 4)).limit_denominator(10 ** 12)
                chk.note("upgrad_norm_eps_between_singular_values")
        for re_ in ladder + [F(1, 10 ** 16)]:
            p = {"pref": pref, "norm_eps": ne, "reg_eps": re_}
            outs, dens = [], []
            ok = True
            for cc in (c1, c2, c3):
                Jc = scale_rows(cc, J)
                o = A.impl_call("UPGrad", p, Jc, "f64")
                w = A.impl_call("UPGrad", p, Jc, "f64", weighting=True)
                if o[0] != "ok" or w[0] != "ok":
                    ok = False
                    break
                outs.append(o[1])
                dens.append(float(A.sigma_max(Jc)) * sum(abs(x) for x in w[1]))
            chk.cov["evaluations"] += 1
            if not ok:
                chk.note("upgrad_solver_failed")
                continue
            exp = lincomb(a, outs[0], b, outs[1])
            defect = max(abs(x - y) for x, y in zip(outs[2], exp))
            den = float(a) * dens[0] + float(b) * dens[1] + dens[2]
            ratio = defect / (math.sqrt(float(re_)) * den)
            c = {"name": "UPGrad", "params": p, "J": J, "cat": cat}
            if re_ >= F(1, 10 ** 12):
                worst = max(worst, ratio)
                bad = ratio > K_UPGRAD
                msg = (f"UPGrad: scaling-linearity defect {defect:.3e} exceeds K*sqrt(reg_eps)*s*|w| "
                       f"= {K_UPGRAD*math.sqrt(float(re_))*den:.3e} at reg_eps={float(re_):.0e}")
            else:
                bad = defect > 1e-5 * den
                msg = (f"UPGrad: scaling-linearity defect {defect:.3e} does not vanish as reg_eps -> 0 "
                       f"(reg_eps=1e-16, den={den:.3e})")
            if bad:
                rep = R.case_json(c, "f64")
                rep.update({"kind": "oracle", "c1": A.jsonable(c1), "c2": A.jsonable(c2), "a": str(a),
                            "b": str(b), "defect": defect, "den": den})
                chk.violation(msg, rep)
                found.add(("UPGrad", A.jsonable(J).__repr__(), "f64"))
                break
    chk.notes["upgrad_max_defect_over_sqrt_reg_eps_den"] = worst
    chk.notes["upgrad_K"] = K_UPGRAD


def run(chk):
    rng = pyrandom.Random(chk.seed * 86028121 + 9)
    q = chk.tier == "quick"
    found = set()
    small_row_family(chk, found)
    exact_family(chk, rng, 90 if q else 1500, found)
    upgrad_ladder(chk, rng, 25 if q else 300, found)
    # UPGrad at the ends of the dtype's range: c1 = c2 = 2^e (1, ..., 1) is the homogeneity instance of the identity
    for i in range(4 if q else 40):
        c = R.gen_case(rng, "UPGrad", mmax=4, nmax=5, cat=rng.choice(["conflict", "generic", "antiparallel"]), boundary=False)
        if len(c["J"]) >= 2 and float(A.sigma_max(c["J"])) > 0:
            R.extreme_scales(chk, found, c, {"f64": 1e-6, "f32": 5e-3}, "C09", dts=R.dtypes_for(c))
    # correspondence: model on diag(c) J for the deterministic members
    cases = []
    for i in range(24 if q else 300):
        name = ["Mean", "Sum", "Constant", "ConFIG"][i % 4]
        c = R.gen_case(rng, name, mmax=4, nmax=5, boundary=False)
        cc = gen_c(rng, len(c["J"]))
        c["J"] = scale_rows(cc, c["J"])
        if A.exactly_representable(c["J"], "f32") and R.well_conditioned(c["J"], name, c["params"]):
            cases.append(c)
    kept, dis = R.run_corr(chk, cases, "c09")
    R.report_corr(chk, dis, found)
    chk.cov["rule"] = ("Mean, Sum, Constant, ConFIG, PCGrad and Random (fixed seed): three related "
                       "positive scalings c1, c2, a c1 + b c2 with entries 2^-10..2^10 on conflicting / "
                       "generic / rank-deficient matrices at global scales 2^-46, 2^-36 (row norms straddling 1e-12), 2^-9 (row norms straddling 1e-4), ... 2^40 (row norms from "
                       "1e-17 to 1e16), f32 and f64; UPGrad: full-row-rank conflicting "
                       "matrices on the reg_eps ladder 1e-2..1e-12 and 1e-16; non-trivial = more than "
                       "one row")
    chk.assumptions += ["UPGrad's constant K = 740 is 10x the maximum measured on the unchanged tree; "
                        "the proved bound (C09_upgrad_defect_bound) has the constant 1/2 but is stated with the "
                        "unregularised minimisers, which the implementation never computes"]


def replay(chk, obj):
    if obj.get("kind") == "extreme_scale":
        c = {"name": obj["aggregator"], "params": A.unjson(obj["params"]), "J": A.unjson(obj["J"]), "cat": obj.get("cat", "")}
        return R.extreme_scales(chk, set(), c, {"f64": 1e-6, "f32": 5e-3}, "C09", dts=(obj.get("dtype", "f64"),))
    name = obj["aggregator"]
    p, J = A.unjson(obj["params"]), A.unjson(obj["J"])
    c1, c2 = A.unjson(obj["c1"]), A.unjson(obj["c2"])
    a, b = F(obj["a"]), F(obj["b"])
    dt = obj.get("dtype", "f64")
    c3 = [a * x + b * y for x, y in zip(c1, c2)]
    o = [A.impl_call(name, p, scale_rows(c, J), dt, seed=11) for c in (c1, c2, c3)]
    exp = lincomb(a, o[0][1], b, o[1][1])
    err = max(abs(x - y) for x, y in zip(o[2][1], exp))
    print("lhs", o[2][1], "rhs", exp, "defect", err)
    sc = max(max(abs(x) for x in exp), 1e-300)
    if name == "UPGrad":
        return err <= K_UPGRAD * math.sqrt(float(p["reg_eps"])) * obj.get("den", sc)
    return err <= TOL[dt] * sc
