"""C10 — the order of the objectives does not matter.
Obligations: props/C10.v (meta-theorem, Mean/Sum, TrimmedMean).  Direct oracle: A(J[sigma]) = A(J)
for ALL m! permutations (m <= 4 quick, <= 5 thorough), preference / weight / leak vectors permuted
alongside, GradDrop under a fixed seed; tie-free inputs (perturbation stability filter, Krum score
gap).  Correspondence: AGG-CORR on J[sigma]."""
import itertools
import random as pyrandom
from fractions import Fraction as F

import agglib as A
import aggrun as R
from props.c08 import stable
from props.c16 import fine_f64_matrix, krum_gap_ok

NAMES = ["UPGrad", "DualProj", "MGDA", "Mean", "Sum", "AlignedMTL", "IMTLG", "ConFIG", "CAGrad",
         "TrimmedMean", "Krum", "Constant", "GradDrop"]
TOL = {"f64": 1e-8, "f32": 3e-3}


def permute_params(name, p, sigma):
    q = dict(p)
    for key in ("pref", "weights", "leak"):
        if q.get(key) is not None:
            q[key] = [q[key][i] for i in sigma]
    return q


def tol_for(name, dt):
    if name in ("Krum", "TrimmedMean", "Mean", "Sum", "Constant"):
        # selections and fixed-weight averages: a few ulps of the largest entry.  The generic tolerance
        # would hide the choice of a different row among rows that are close to each other (workers'
        # gradients around a common mean)
        return {"f64": 1e-13, "f32": 2e-6}[dt]
    t = TOL[dt]
    if name == "CAGrad":
        t = max(t, 1e-5)
    return t


def check_case(chk, c, found, maxperms):
    name, p, J = c["name"], c["params"], c["J"]
    m = len(J)
    perms = list(itertools.permutations(range(m)))
    if len(perms) > maxperms:
        rng = pyrandom.Random(len(perms))
        perms = [perms[0]] + rng.sample(perms[1:], maxperms - 1)
    for dt in (("f64",) if "f64_below_f32_resolution" in c["cat"] else R.dtypes_for(c)):
        base = A.impl_call(name, p, J, dt, seed=5)
        if base[0] != "ok":
            rep = R.case_json(c, dt)
            rep.update({"kind": "oracle", "observed": base[:2]})
            chk.violation(f"{name} raised {base[1]} on a finite matrix", rep)
            return
        sel = name in ("Krum", "TrimmedMean", "Mean", "Sum", "Constant")
        sc = max(float(A.maxabs(J)) * (1 if sel else m), max(abs(x) for x in base[1]) if sel else 0.0, 1e-300)
        for sigma in perms[1:]:
            Js = [J[i] for i in sigma]
            o = A.impl_call(name, permute_params(name, p, sigma), Js, dt, seed=5)
            chk.cov["evaluations"] += 1
            err = (max(abs(x - y) for x, y in zip(o[1], base[1])) if o[0] == "ok" else float("inf"))
            chk.notes["max_rel_dev_" + dt] = max(chk.notes.get("max_rel_dev_" + dt, 0.0),
                                                 err / sc if err != float("inf") else 0.0)
            if err > tol_for(name, dt) * sc:
                rep = R.case_json(c, dt)
                rep.update({"kind": "oracle", "sigma": list(sigma), "A_J": base[1], "A_Jsigma": o[:2]})
                chk.violation(f"{name}: permuting the rows by {list(sigma)} (parameters permuted "
                              f"alongside) changed A(J) by {err/sc:.3e} relative", rep)
                found.add((name, A.jsonable(J).__repr__(), dt))
                return


def forced_cases(rng):
    """inputs that the random categories reach only now and then (full table of seeded changes under seed 87):
    MGDA on TWO rows of which one is dominated (<g0, g1> >= |g0|^2: the min-norm point of the segment is the
    vertex g0), in both orders; TrimmedMean with maximal and with b = 2 trimming on tall three-letter matrices
    (several equal entries straddling the median of every column)"""
    out = []
    for g0, g1 in ([[1, 0], [3, F(1, 2)]], [[1, 1, 0], [3, 2, 1]], [[2, -1, 0, 1], [5, -2, 1, 3]],
                   [[F(1, 4), 0, F(1, 4)], [1, F(1, 2), 2]]):
        for rows in ([g0, g1], [g1, g0]):
            out.append({"name": "MGDA", "params": A.gen_params(rng, "MGDA", 2),
                        "J": [[F(x) for x in r] for r in rows], "cat": "forced_dominated_2rows"})
    for m in (5, 6, 7):
        for b in sorted({2, (m - 1) // 2}):
            alpha = rng.sample([-7, -3, -1, 1, 2, 5, 9], 3)
            n = rng.randint(2, 4)
            J = [[F(rng.choice(alpha)) for _ in range(n)] for _ in range(m)]
            J[0][0], J[m - 1][0] = F(min(alpha)), F(max(alpha))
            for i in range(1, m - 1):
                J[i][0] = F(sorted(alpha)[1])          # column 0: min, (m-2) x the middle letter, max
            out.append({"name": "TrimmedMean", "params": {"b": b}, "J": J, "cat": "forced_few_values_tall"})
    # float64 rows that differ by less than float32 resolution (common component 2^30): Krum, float64 only
    n_fine = 0
    for _ in range(100):
        J, f, k = fine_f64_matrix(rng)
        if J is not None and len(J) <= 6 and n_fine < 3:
            n_fine += 1
            out.append({"name": "Krum", "params": {"f": f, "k": k}, "J": J, "cat": "f64_below_f32_resolution"})
    return out


def run(chk):
    rng = pyrandom.Random(chk.seed * 67867967 + 10)
    q = chk.tier == "quick"
    found = set()
    cases, corr = [], []
    n = 13 * 30 if q else 13 * 300
    pre = forced_cases(rng)
    for i in range(-len(pre), n):
        name = NAMES[i % len(NAMES)] if i >= 0 else pre[i]["name"]
        if i < 0:
            c = pre[i]
        elif name == "GradDrop":
            J, cat = A.gen_matrix(rng, mmax=4 if q else 5, nmax=5)
            c = {"name": name, "params": A.gen_params(rng, name, len(J)), "J": J, "cat": cat}
        else:
            rnd = i // len(NAMES)
            # the first rounds are not left to chance: every aggregator sees matrices with an all-zero
            # row (and, where it takes one, a non-uniform preference / weight vector)
            forced = "zero_row" if rnd < 3 else ("clustered" if rnd < (9 if name == "Krum" else 5) and name in ("Krum", "TrimmedMean", "Mean") else None)
            if forced is None and name == "TrimmedMean" and rnd < 10:
                forced = "few_values"
            c = R.gen_case(rng, name, mmax=(4 if q else 5) if forced not in ("clustered", "few_values") else (7 if forced == "few_values" else 6), nmax=5, boundary=False, cat=forced or rng.choice(
                ["generic", "conflict", "zero_row", "rank_def", "bad_scale", "stationary", "generic",
                 "antiparallel", "dup_rows", "dominated", "dominated", "zero_row"]))
            if rnd < 3 and "pref" in c["params"] and len(c["J"]) >= 2:
                c["params"]["pref"] = None
                while c["params"]["pref"] is None or len(set(c["params"]["pref"])) < 2:
                    c["params"]["pref"] = A.gen_pref(rng, len(c["J"]), positive=True)
        J, p = c["J"], c["params"]
        if i < 0:
            chk.note("forced_generated")
        if name == "TrimmedMean" and c["cat"].startswith("few_values") and len(J) >= 3:
            p["b"] = (len(J) - 1) // 2          # maximal trimming: the kept entries are the (tied) medians
        if len(J) < 2:
            continue
        if name == "Krum" and not krum_gap_ok(J, p["f"], p["k"]):
            chk.note("skipped_krum_score_tie")
            continue
        if name == "MGDA" and A.mgda_has_tie(J, p["epsilon"], p["max_iters"]):
            chk.note("skipped_mgda_argmin_tie")
            continue
        if name not in ("GradDrop",) and not stable(name, p, J, A.impl_call(name, p, J, "f64")):
            chk.note("skipped_unstable_" + name)
            continue
        cases.append(c)
        if i < 0:
            chk.note("forced_kept")
        if name != "GradDrop":
            sigma = list(range(len(J)))
            rng.shuffle(sigma)
            pp = permute_params(name, p, sigma)
            if not R.well_conditioned([J[i] for i in sigma], name, pp):
                continue
            if name == "MGDA":
                pp["max_iters"] = min(pp["max_iters"], 5)
            corr.append({"name": name, "params": pp, "J": [J[i] for i in sigma], "cat": c["cat"] + "+perm"})
    kept, dis = R.run_corr(chk, corr, "c10")
    for c in cases:
        chk.count(R.case_json(c), nontrivial=len(c["J"]) >= 2)
        check_case(chk, c, found, 24 if q else 120)
    R.report_corr(chk, dis, found)
    chk.cov["rule"] = ("13 aggregators x random matrices (2<=m<=4 quick / 5 thorough), ALL m! row "
                       "permutations with pref/weight/leak vectors permuted alongside, GradDrop under a "
                       "fixed seed, f32 and f64; exact score ties (Krum) and numerically unstable inputs "
                       "(perturbation filter) are skipped and counted")
    chk.cov["exhaustive"] = False
    chk.assumptions += ["tie-free quantifier implemented by a 1e-11 perturbation stability filter"]


def replay(chk, obj):
    found = set()
    c = {"name": obj["aggregator"], "params": A.unjson(obj["params"]), "J": A.unjson(obj["J"]),
         "cat": obj.get("cat", "")}
    for k in ("max_iters", "f", "k", "b"):
        if k in c["params"]:
            c["params"][k] = int(c["params"][k])
    check_case(chk, c, found, 120)
    return not chk.violations
