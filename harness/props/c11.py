"""C11 — aggregators are total, pure, stateless and positively homogeneous.
Obligations: props/C11.v (validation rule, shape, homogeneity of fixed weights / MGDA / TrimmedMean /
IMTL-G, refutation of IMTL-G's old absolute guard).  OBSERVED on the implementation (not provable in
a functional exact-arithmetic model): finiteness over 27 (f32) / 200 (f64) orders of magnitude,
dtype preservation, input left untouched (bitwise), independence from earlier calls, equal seeds
=> equal results.  Malformed stream: 0-d/1-d/3-d tensors, nan/inf at every position, row-count
contradictions => ValueError (weighted aggregators, GradDrop, TrimmedMean)."""
import math
import random as pyrandom
from fractions import Fraction as F

import torch

import agglib as A
import aggrun as R

ALL = ["Mean", "Sum", "Constant", "Random", "UPGrad", "DualProj", "MGDA", "PCGrad", "GradDrop",
       "TrimmedMean", "Krum", "IMTLG", "ConFIG", "CAGrad", "AlignedMTL"]
RANDOMISED = ["Random", "PCGrad", "GradDrop"]
REJECTING = [n for n in ALL if n != "ConFIG"]       # "the weighted aggregators, GradDrop and TrimmedMean"
HTOL = {"f64": 1e-6, "f32": 3e-3}


def viol(chk, found, c, dt, what, extra):
    rep = R.case_json(c, dt)
    rep.update({"kind": "oracle"})
    rep.update(extra)
    chk.violation(what, rep)
    found.add((c["name"], A.jsonable(c["J"]).__repr__(), dt))


def scaled(J, e):
    sc = F(2) ** e
    return [[x * sc for x in r] for r in J]


def basic_checks(chk, rng, c, found, history_pool):
    name, p, J = c["name"], c["params"], c["J"]
    m, n = len(J), len(J[0])
    for dt in R.dtypes_for(c):
        t = A.to_tensor(J, dt)
        before = t.clone()
        agg = A.make_aggregator(name, p, dt)
        try:
            torch.manual_seed(3)
            out = agg(t)
        except Exception as e:  # noqa: BLE001
            viol(chk, found, c, dt, f"{name} raised {type(e).__name__} on a finite matrix meeting its "
                 f"row-count requirement", {"error": str(e)[:200]})
            continue
        chk.cov["evaluations"] += 1
        if tuple(out.shape) != (n,):
            viol(chk, found, c, dt, f"{name} returned shape {tuple(out.shape)} for {n} columns", {})
            continue
        if out.dtype != A.DT[dt]:
            viol(chk, found, c, dt, f"{name} returned dtype {out.dtype} for a {A.DT[dt]} input", {})
            continue
        if not bool(out.isfinite().all()):
            viol(chk, found, c, dt, f"{name} returned a non-finite vector", {"output": out.tolist()})
            continue
        if not torch.equal(t, before):
            viol(chk, found, c, dt, f"{name} modified its input matrix", {})
            continue
        # independence from earlier calls: the same instance after a history of other matrices
        # (other shapes, scales, and the same row count in the OTHER dtype) vs a fresh instance
        agg2 = A.make_aggregator(name, p, dt)
        hist_ok = True
        for (hJ, hdt) in history_pool(m, dt):
            try:
                torch.manual_seed(99)
                agg2(A.to_tensor(hJ, hdt))
            except Exception:  # noqa: BLE001  (row-count contradictions of the history are fine)
                pass
        try:
            torch.manual_seed(3)
            out2 = agg2(t)
            same = torch.equal(out, out2)
        except Exception as e:  # noqa: BLE001
            same, out2 = False, type(e).__name__
        if not same:
            viol(chk, found, c, dt, f"{name}: the result depends on earlier calls (same instance after "
                 f"a history of other matrices differs from a fresh instance)",
                 {"fresh": out.tolist(), "after_history": out2 if isinstance(out2, str) else out2.tolist()})
            continue
        # ... and from what THE SAME TENSOR OBJECT held at earlier calls: a pre-allocated Jacobian buffer that is
        # refilled in place (copy_) between calls, first with other contents of the same shape
        agg3 = A.make_aggregator(name, p, dt)
        buf = A.to_tensor([list(reversed(r)) for r in reversed(J)], dt)
        try:
            for filler in (None, t * 2.0 + 1.0):
                if filler is not None:
                    buf.copy_(filler)
                torch.manual_seed(99)
                try:
                    agg3(buf)
                except Exception:  # noqa: BLE001
                    pass
            buf.copy_(t)
            torch.manual_seed(3)
            out5 = agg3(buf)
            same = torch.equal(out, out5)
        except Exception as e:  # noqa: BLE001
            same, out5 = False, type(e).__name__
        if not same:
            viol(chk, found, c, dt, f"{name}: the result depends on what the same tensor object held at earlier calls "
                 f"(a buffer refilled in place differs from a fresh tensor with the same content)",
                 {"fresh": out.tolist(), "refilled_buffer": out5 if isinstance(out5, str) else out5.tolist()})
            continue
        if name in RANDOMISED:
            torch.manual_seed(3)
            out3 = A.make_aggregator(name, p, dt)(t)
            if not torch.equal(out, out3):
                viol(chk, found, c, dt, f"{name}: equal seeds gave different results", {})
        vec = p.get("leak") if name == "GradDrop" else p.get("pref") if name in ("UPGrad", "DualProj") else None
        if vec is not None and len(vec) == m:
            # a leak / preference vector of the OTHER float dtype than the matrix is accepted by these
            # aggregators: the result is still in the dtype of the INPUT, with the same value
            other = "f32" if dt == "f64" else "f64"
            try:
                torch.manual_seed(3)
                out4 = A.make_aggregator(name, p, dt, other)(t)
            except Exception as e:  # noqa: BLE001
                out4 = type(e).__name__
            chk.note("cross_dtype_parameter_vector")
            if isinstance(out4, str):
                viol(chk, found, c, dt, f"{name} with a {A.DT[other]} parameter vector raised {out4}", {})
            elif out4.dtype != A.DT[dt] or tuple(out4.shape) != (n,):
                viol(chk, found, c, dt, f"{name} with a {A.DT[other]} parameter vector returned dtype {out4.dtype}, "
                     f"shape {tuple(out4.shape)} for a {A.DT[dt]} input with {n} columns", {})
            elif not bool(((out4 - out).abs() <= 1e-3 * max(1e-300, float(out.abs().max()), float(t.abs().max()))).all()):
                viol(chk, found, c, dt, f"{name}: a {A.DT[other]} parameter vector changes the result",
                     {"same_dtype": out.tolist(), "other_dtype": out4.tolist()})


def homogeneity(chk, rng, c, found):
    name, p, J = c["name"], c["params"], c["J"]
    m = len(J)
    s = float(A.sigma_max(J))
    for dt, lo, hi in (("f32", -40, 50), ("f64", -332, 332)):
        if dt not in R.dtypes_for(c):
            continue
        base = A.impl_call(name, p, J, dt, seed=3)
        if base[0] != "ok":
            continue
        es = [lo, hi, rng.randint(lo, hi), rng.randint(lo, hi), rng.randint(-8, 8)]
        for e in es:
            # keep the whole computation inside the dtype's range: the Gramian of tJ must not overflow
            mx = float(A.maxabs(J))
            if mx == 0:
                continue
            lim = 120 if dt == "f32" else 1000
            if not (-lim < 2 * (e + math.log2(mx * m)) < lim):
                continue
            if name in ("UPGrad", "DualProj", "CAGrad"):
                ne = float(p["norm_eps"])
                if not (s >= ne * 1.001 and s * 2.0 ** e >= ne * 1.001):
                    continue
            o = A.impl_call(name, p, scaled(J, e), dt, seed=3)
            chk.cov["evaluations"] += 1
            sc = max(mx * m, 1e-300)
            bad = None
            if o[0] != "ok":
                bad = f"{name} raised {o[1]} at scale 2^{e}"
            elif not all(math.isfinite(x) for x in o[1]):
                bad = f"{name} returned a non-finite vector at scale 2^{e}"
            else:
                err = max(abs(x / 2.0 ** e - y) for x, y in zip(o[1], base[1]))
                chk.notes["max_homogeneity_dev_" + dt] = max(chk.notes.get("max_homogeneity_dev_" + dt, 0.0), err / sc)
                if err > HTOL[dt] * sc:
                    bad = (f"{name}: A(tJ) != t A(J) for t = 2^{e} (relative deviation {err/sc:.3e})")
            if bad:
                viol(chk, found, c, dt, bad, {"scale_exp": e, "A_J": base[1], "A_tJ": o[:2]})
                break


def malformed(chk, rng, found):
    """every rejecting aggregator x malformed tensors -> ValueError"""
    n_obs = 0
    for name in REJECTING:
        m = 3
        p = A.gen_params(rng, name, m)
        if name == "Krum":
            p = {"f": 0, "k": 1}
        if name == "TrimmedMean":
            p = {"b": 1}
        # the row-count rules of configured vectors are not left to the draw: leak / pref / weights of length 3
        if "leak" in p:
            p["leak"] = [F(1, 2), F(1, 4), F(3, 4)]
        if "pref" in p:
            p["pref"] = [F(1, 2), F(1, 4), F(3, 4)]
        good = [[F(1), F(2)], [F(-1), F(1)], [F(2), F(0)]]
        bads = []
        for dt in ("f32", "f64"):
            bads += [("0-d", torch.tensor(1.0, dtype=A.DT[dt])), ("1-d", torch.ones(3, dtype=A.DT[dt])),
                     ("3-d", torch.ones(3, 2, 2, dtype=A.DT[dt]))]
            for val in (float("nan"), float("inf"), float("-inf")):
                for (i, j) in [(0, 0), (1, 1), (2, 0), (2, 1)]:
                    t = A.to_tensor(good, dt)
                    t[i, j] = val
                    bads.append((f"{val} at ({i},{j})", t))
        # row-count contradictions
        for dt in ("f64", "f32"):
            if name == "Constant" or p.get("pref") is not None or p.get("leak") is not None:
                bads.append(("one row less", A.to_tensor(good[:2], dt)))
                bads.append(("one row more", A.to_tensor(good + [[F(1), F(1)]], dt)))
                bads.append(("three rows more", A.to_tensor(good + [[F(1), F(1)], [F(0), F(2)], [F(3), F(-1)]], dt)))
                bads.append(("one row only", A.to_tensor(good[:1], dt)))
                # the row-count rules hold for EVERY matrix, the all-zero one included
                bads.append(("all-zero, one row less", torch.zeros(2, 2, dtype=A.DT[dt])))
                bads.append(("all-zero, one row more", torch.zeros(4, 3, dtype=A.DT[dt])))
            if name == "TrimmedMean":
                bads.append(("m < 2b+1", A.to_tensor(good[:2], dt)))
                bads.append(("all-zero, m < 2b+1", torch.zeros(2, 3, dtype=A.DT[dt])))
            if name == "Krum":
                bads.append(("m < f+3", A.to_tensor(good[:2], dt)))
                bads.append(("all-zero, m < f+3", torch.zeros(2, 3, dtype=A.DT[dt])))
        for label, t in bads:
            try:
                A.make_aggregator(name, p, "f32" if t.dtype == torch.float32 else "f64")(t)
                got = "no exception"
            except ValueError:
                got = "ValueError"
            except Exception as e:  # noqa: BLE001
                got = type(e).__name__
            chk.cov["evaluations"] += 1
            n_obs += 1
            if got != "ValueError":
                c = {"name": name, "params": p, "J": label, "cat": "malformed"}
                rep = {"aggregator": name, "params": A.jsonable(p), "J": label, "kind": "oracle",
                       "malformed": label, "dtype": str(t.dtype), "observed": got}
                chk.violation(f"{name} did not reject a malformed tensor ({label}, {t.dtype}) with "
                              f"ValueError: {got}", rep)
    # ConFIG: observation only (not named in the rejection clause)
    obs = {}
    for label, t in [("1-d", torch.ones(3)), ("nan", torch.tensor([[1.0, float("nan")], [0.0, 1.0]]))]:
        try:
            o = A.make_aggregator("ConFIG", {"pref": None}, "f32")(t)
            obs[label] = "returned " + ("nan" if not bool(o.isfinite().all()) else "finite")
        except Exception as e:  # noqa: BLE001
            obs[label] = type(e).__name__
    chk.cov["config_unvalidated_inputs_observation"] = obs
    chk.notes["malformed_calls"] = n_obs


def run(chk):
    rng = pyrandom.Random(chk.seed * 982451653 + 11)
    q = chk.tier == "quick"
    found = set()
    pool = []
    for _ in range(12):
        J, _ = A.gen_matrix(rng)
        pool.append(J)

    def history_pool(m, dt):
        other = "f64" if dt == "f32" else "f32"
        hist = [(pool[rng.randrange(len(pool))], rng.choice(["f32", "f64"])) for _ in range(rng.randint(1, 4))]
        # the same number of rows in the other dtype, and in the same dtype with other values
        same_m = [[F(rng.randint(-3, 3)) for _ in range(rng.randint(1, 4))] for _ in range(m)]
        same_m = [r[:len(same_m[0])] + [F(1)] * (len(same_m[0]) - len(r)) for r in same_m]
        hist.insert(rng.randrange(len(hist) + 1), (same_m, other))
        return hist

    cases = []
    for i in range(120 if q else 2000):
        name = ALL[i % len(ALL)]
        if name in ("Random", "PCGrad", "GradDrop"):
            J, cat = A.gen_matrix(rng, mmax=5, nmax=6, scale_exp=0)
            if name == "PCGrad" and any(all(x == 0 for x in r) for r in J):
                continue
            c = {"name": name, "params": A.gen_params(rng, name, len(J)), "J": J, "cat": cat}
        else:
            c = R.gen_case(rng, name, mmax=5, nmax=6, boundary=False)
        cases.append(c)
    for c in cases:
        chk.count(R.case_json(c), nontrivial=c["cat"] not in ("zero",))
        chk.note("cat_" + c["cat"])
        basic_checks(chk, rng, c, found, history_pool)
        stable_ok = True
        if c["name"] == "MGDA" and A.mgda_has_tie(c["J"], c["params"]["epsilon"], c["params"]["max_iters"]):
            stable_ok = False
        if c["name"] == "Krum":
            from props.c16 import krum_gap_ok
            stable_ok = krum_gap_ok(c["J"], c["params"]["f"], c["params"]["k"])
        if c["name"] in ("IMTLG", "ConFIG", "AlignedMTL", "CAGrad") and not R.well_conditioned(
                c["J"], c["name"], c["params"]):
            stable_ok = False
        if stable_ok and c["name"] != "GradDrop":
            homogeneity(chk, rng, c, found)
        elif c["name"] == "GradDrop":
            homogeneity(chk, rng, c, found)
    malformed(chk, rng, found)
    # correspondence at global scales
    corr = []
    for c in cases[: (45 if q else 600)]:
        if c["name"] in R.DETERMINISTIC:
            e = rng.choice([-20, -6, 0, 7, 18])
            Js = scaled(c["J"], e)
            pp = dict(c["params"])
            if c["name"] == "MGDA":
                pp["max_iters"] = min(pp["max_iters"], 5)
            if A.exactly_representable(Js, "f32") and R.well_conditioned(Js, c["name"], pp):
                if c["name"] in ("UPGrad", "DualProj", "CAGrad") and float(A.sigma_max(Js)) < float(pp["norm_eps"]) * 1.001 \
                        and float(A.sigma_max(Js)) > float(pp["norm_eps"]) * 0.999:
                    continue
                if c["name"] == "Krum":
                    from props.c16 import krum_gap_ok
                    if not krum_gap_ok(Js, pp["f"], pp["k"]):
                        continue
                corr.append({"name": c["name"], "params": pp, "J": Js, "cat": c["cat"] + f"*2^{e}"})
    kept, dis = R.run_corr(chk, corr, "c11")
    R.report_corr(chk, dis, found)
    chk.cov["rule"] = ("15 aggregators x random matrices of all categories (m<=5, n<=6): shape, dtype, "
                       "finiteness, bitwise-unchanged input, fresh instance vs same instance after a "
                       "history of 2-5 other calls (incl. the same row count in the other dtype), equal "
                       "seeds; homogeneity at t = 2^e, e in [-40,50] (f32) / [-332,332] (f64) incl. both "
                       "ends; malformed stream (0-d/1-d/3-d, nan/inf/-inf at 4 positions, row-count "
                       "contradictions) for 14 rejecting aggregators; AGG-CORR at global scales")
    chk.assumptions += ["finiteness over the float range, dtype, purity and statelessness are "
                        "differential observations, not theorems (DESIGN.md §13)",
                        "ConFIG is not named in the rejection clause: its behaviour on malformed input "
                        "is recorded as an observation"]


def replay(chk, obj):
    found = set()
    if not isinstance(obj.get("J"), list):
        malformed(chk, pyrandom.Random(0), found)
        return not chk.violations
    c = {"name": obj["aggregator"], "params": A.unjson(obj["params"]), "J": A.unjson(obj["J"]),
         "cat": obj.get("cat", "")}
    for k in ("max_iters", "f", "k", "b"):
        if k in c["params"]:
            c["params"][k] = int(c["params"][k])
    rng = pyrandom.Random(1)
    m = len(c["J"])
    basic_checks(chk, rng, c, found, lambda mm, dt: [([[F(1)] * 2] * mm, "f64" if dt == "f32" else "f32")])
    homogeneity(chk, rng, c, found)
    if "scale_exp" in obj:
        e = obj["scale_exp"]
        print("A(J)   =", A.impl_call(c["name"], c["params"], c["J"], obj.get("dtype", "f64"), seed=3)[:2])
        print("A(tJ)/t=", [x / 2.0 ** e for x in A.impl_call(c["name"], c["params"], scaled(c["J"], e),
                                                             obj.get("dtype", "f64"), seed=3)[1]])
    return not chk.violations
