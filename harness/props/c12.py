"""C12 — default parameter discovery finds exactly the leaves that matter.
Obligations: coq/theories/props/C12.v (BFS = reachability on every finite graph; defaulted entry
points = explicit calls on the discovered sets; overlap rejected).
Correspondence: random DAGs (diamonds, chains up to depth 30, leaves reached through and around
the features, leaves not requiring grad, detached sub-graphs, multi-output ops, head sub-graphs
shared between losses).  The node graph is read off the real tensors (grad_fn, next_functions,
AccumulateGrad.variable); the Coq model's walk must return exactly the leaf set the harness derives
from its own op DAG; then TWIN graphs: the defaulted call and the explicit call with that set must
leave identical .grad everywhere (None-ness included)."""
import random

import torch

import ajcheck
import ajlib
import common
from ajlib import numel

N_QUICK, N_THOROUGH = 70, 1000


def gen_chain(rng):
    """deep chain with side leaves"""
    p = ajlib.Program()
    x = p.leaf((2,), [1, -1], True)
    cur = x
    depth = rng.randint(8, 30)
    for d in range(depth):
        c = rng.random()
        if c < 0.3:
            b = p.leaf((2,), [rng.choice([-1, 1]), rng.choice([-1, 1])], rng.random() < 0.7)
            cur = p.op(rng.choice(["add", "sub"]), [cur, b])
        elif c < 0.5:
            cur = p.op("neg", [cur])
        elif c < 0.7:
            cur = p.op("add", [cur, cur])          # diamond
            cur = p.op("scale", [cur], c=1)
        elif c < 0.8:
            parts = p.op("unbind", [cur])
            cur = p.op("stack", [parts[1], parts[0]])
        elif c < 0.85:
            side = p.op("detach", [cur])
            y = p.leaf((2,), [1, 1], True)
            cur = p.op("add", [p.op("mul", [side, y]), cur])
        else:
            cur = p.op("clone", [cur])
    return p, [cur]


def gen_shared_head(rng):
    """losses share an interior head node h = f * q located after the features"""
    for _ in range(100):
        p = ajlib._gen_program(rng, rng.randint(1, 3), rng.randint(2, 5), None)
        if p is None:
            continue
        cand = [t for t in range(p.n()) if p.req[t] and not p.is_leaf[t] and numel(p.shapes[t]) >= 1]
        if not cand:
            continue
        f = rng.choice(cand)
        sf = p.shapes[f]
        q = p.leaf(sf, [rng.choice([1, 2]) for _ in range(numel(sf))], True)
        h = p.op("square", [p.op("mul", [f, q])])
        losses, tasks = [], []
        for ti in range(rng.randint(2, 3)):
            pi = p.leaf(sf, [rng.randint(-2, 2) for _ in range(numel(sf))], True)
            losses.append(p.op("sum", [p.op("mul", [h, pi])]))
            tasks.append([q, pi])
        if p.maxabs() < 2 ** 20:
            return p, [f], losses
    raise RuntimeError("no program")


def gen_sibling(rng, variant=None):
    """a feature that is ONE output of a multi-output op while a head uses a SIBLING output directly
    (around the feature); the order and depth of the two uses vary, so that the walk meets the
    excluded gradient edge before or after the live one"""
    p = ajlib.Program()
    n = rng.choice([2, 3])
    x = p.leaf((n, 2), [rng.randint(-3, 3) for _ in range(2 * n)], True)
    t = p.op(rng.choice(["scale", "square"]), [x], **({"c": 2} if False else {})) if False else None
    t = p.op("scale", [x], c=rng.choice([2, 3])) if rng.random() < 0.5 else p.op("square", [x])
    outs = p.op("unbind", [t])
    v = rng.random() if variant is None else [0.1, 0.45, 0.8, 0.8][variant % 4]
    if v < 0.3:
        # CHAINS OF SINGLE-INPUT FUNCTIONS across a multi-output node, where the output number changes along
        # the chain: (i) the feature is output >= 1 of the trunk's unbind and a head reaches it through
        # sum / square only (scaled by a 0-d parameter at the very end); (ii) the feature is single-output and
        # a head unbinds a function of it and uses output >= 1.  No path around: must be accepted.
        losses = []
        if rng.random() < 0.5:
            feat = outs[rng.randrange(1, len(outs))]
            feats = [feat]
            for ti in range(rng.randint(1, 2)):
                a = feat
                for _ in range(rng.randint(0, 2)):
                    a = p.op("square", [a])
                q = p.leaf((), [rng.choice([-2, 2, 3])], True)
                losses.append(p.op("mul", [p.op("sum", [a]), q]))
        else:
            feats = [t]
            for ti in range(rng.randint(1, 2)):
                a = t
                for _ in range(rng.randint(0, 1)):
                    a = p.op("square", [a])
                hs = p.op("unbind", [a])
                b = hs[rng.randrange(1, len(hs))]
                for _ in range(rng.randint(0, 1)):
                    b = p.op("square", [b])
                w = p.leaf((2,), [rng.randint(-2, 2) for _ in range(2)], True)
                losses.append(p.op("sum", [p.op("mul", [b, w])]))
        return p, feats, losses
    if v < 0.6:
        # SEVERAL features that are sibling outputs of one node (encoder(x).chunk / unbind / an RNN's
        # (output, h_n)), one or more heads per feature and no path around: every sibling's gradient edge
        # is excluded, the defaults do not overlap and the call must be accepted
        feats = rng.sample(outs, rng.randint(2, len(outs)))
        losses = []
        for ti in range(rng.randint(len(feats), len(feats) + 1)):
            f = feats[ti % len(feats)]
            w = p.leaf((2,), [rng.randint(-2, 2) for _ in range(2)], True)
            a = p.op("mul", [f, w])
            if rng.random() < 0.4:
                a = p.op("square", [a])
            losses.append(p.op("sum", [a]))
        return p, feats, losses
    fi = rng.randrange(len(outs))
    feat = outs[fi]
    sib = rng.choice([o for o in outs if o != feat])
    losses = []
    for ti in range(rng.randint(1, 3)):
        w = p.leaf((2,), [rng.randint(-2, 2) for _ in range(2)], True)
        through = p.op("sum", [p.op("mul", [feat, w])])
        if rng.random() < 0.5:
            through = p.op("sum", [feat]) if rng.random() < 0.5 else through
        if ti == 0 or rng.random() < 0.5:
            depth = rng.randint(0, 2)
            a = sib
            for _ in range(depth):
                a = p.op("square", [a])
            around = p.op("sum", [a])
            loss = p.op("add", [through, around] if rng.random() < 0.5 else [around, through])
        else:
            loss = through
        losses.append(loss)
    return p, [feat], losses


def gen_zero_size(rng, variant):
    """leaves WITHOUT ELEMENTS (shape (0,) or (0, 2): an empty bias, a disabled embedding table) that the
    tensors are computed from all the same (torch.cat): they own no column of the Jacobian, and are leaves
    requiring grad like any other -- the explicit call gives them an empty .grad, and reached both through and
    around the features they make the default sets overlap"""
    p = ajlib.Program()
    two_d = variant % 2 == 1
    n = rng.choice([2, 3])
    sh, zsh = ((n, 2), (0, 2)) if two_d else ((n,), (0,))
    vals = lambda: [rng.choice([-3, -2, -1, 1, 2, 3]) for _ in range(numel(sh))]  # noqa: E731
    x = p.leaf(sh, vals(), True)
    z = p.leaf(zsh, [], True)
    c = p.op("cat", [x, z] if rng.random() < 0.5 else [z, x])
    kind = ["backward", "mtl", "mtl_overlap"][variant % 3]
    if kind == "backward":
        w = p.leaf(sh, vals(), True)
        y = p.op("mul", [c, w])
        outs = [y, p.op("sum", [p.op("square", [c])])] if rng.random() < 0.5 else [y]
        return p, "backward", {"tensors": outs}
    f = p.op("scale", [c], c=rng.choice([2, 3]))
    losses = []
    for ti in range(rng.randint(2, 3)):
        w = p.leaf(sh, vals(), True)
        a = p.op("mul", [f, w])
        if ti == 0:
            z2 = z if kind == "mtl_overlap" else p.leaf(zsh, [], True)
            a = p.op("cat", [a, z2])
        losses.append(p.op("sum", [a]))
    return p, "mtl", {"features": [f], "losses": losses, "retain": True}


def gen_case(rng, idx, zero_variant=None):
    # eight slots per round: the multi-output family (mode 6) twice, its three variants in turn (the "around"
    # variant, whose outcome depends on the order in which the walk meets the two edges, twice as often)
    mode = [0, 1, 2, 3, 4, 5, 6, 6][idx % 8] if zero_variant is None else 7
    if mode == 7:
        prog, kind, spec = gen_zero_size(rng, zero_variant)
    elif mode in (0, 1):
        outs = []
        while not outs:
            prog = ajlib.gen_program(rng)
            outs = [t for t in range(prog.n()) if prog.req[t] and not prog.is_leaf[t]]
        rng.shuffle(outs)
        outs = outs[:rng.randint(1, 3)]
        while sum(numel(prog.shapes[o]) for o in outs) > 16 and len(outs) > 1:
            outs.pop()
        kind, spec = "backward", {"tensors": outs}
    elif mode == 2:
        prog, outs = gen_chain(rng)
        kind, spec = "backward", {"tensors": outs}
    elif mode == 3:
        prog, feats, losses = gen_shared_head(rng)
        kind, spec = "mtl", {"features": feats, "losses": losses, "retain": True}
    elif mode == 6:
        prog, feats, losses = gen_sibling(rng, variant=(idx // 8) * 2 + (idx % 8 == 7))
        kind, spec = "mtl", {"features": feats, "losses": losses, "retain": True}
    else:
        prog, feats, losses, tasks, shared = ajlib.gen_mtl(rng, overlap=(mode == 5))
        nested = ajlib.entangled(prog, feats)
        kind, spec = "mtl", {"features": feats, "losses": losses, "retain": nested or mode == 5}
    leaves = [t for t in range(prog.n()) if prog.is_leaf[t] and prog.req[t]]
    case = {"id": idx, "prog": prog.to_json(), "kind": kind, "old": ajcheck.rand_old(rng, prog, leaves, 0.3)}
    if kind == "backward":
        m = sum(numel(prog.shapes[o]) for o in spec["tensors"])
        call = {"entry": "backward", "tensors": spec["tensors"], "inputs": None,
                "agg": ajcheck.rand_agg(rng, m), "k": rng.choice([None, 1, 2]), "retain": False}
        case["sets"] = [(spec["tensors"], [])]
    else:
        t = len(spec["losses"])
        call = {"entry": "mtl", "losses": spec["losses"], "features": spec["features"], "tasks": None,
                "shared": None, "agg": ajcheck.rand_agg(rng, t), "k": rng.choice([None, 1, 2]),
                "retain": spec["retain"]}
        case["sets"] = [(spec["features"], [])] + [([l], spec["features"]) for l in spec["losses"]]
    case["calls"] = [ajcheck.prepare_call(prog, call)]
    if kind == "mtl":
        # second variant: only tasks_params defaulted; shared_params given explicitly as the trunk
        # leaves that no head reaches around the features (so the sets cannot overlap)
        c0 = case["calls"][0]
        around = {q for ps in c0["eff_tasks"] for q in ps}
        sh = [x for x in c0["eff_shared"] if x not in around]
        call2 = dict(call, shared=sh, retain=True)
        case["calls"].append(ajcheck.prepare_call(prog, call2))
    return case


def model_leafsets(cases):
    src = ajlib.AJ_HEADER
    for case in cases:
        prog = ajlib.Program.from_json(case["prog"])
        ts = prog.build(torch.float64)
        graph = ajlib.Graph(ts)
        name = f"G{case['id']}"
        src += ajlib.c_prog(name, prog, graph, {})
        items = "; ".join(
            f"match get_leaf_tensors {name} E{name} {ajlib.c_natlist(a)} {ajlib.c_natlist(b)} with Ok l => (0%nat, l) | Err e => (err_code e, []) end"
            for a, b in case["sets"])
        src += f"Eval vm_compute in [{items}].\n"
    return src


def twin(chk, case, call):
    """defaulted call on one twin, explicit call with the oracle sets on the other"""
    prog = ajlib.Program.from_json(case["prog"])
    explicit = dict(call)
    if call["entry"] == "backward":
        explicit["inputs"] = call["eff_inputs"]
    else:
        explicit["tasks"] = call["eff_tasks"]
        explicit["shared"] = call["eff_shared"]
    res = []
    for c in (call, explicit):
        ts = prog.build(torch.float64)
        ajlib.set_old_grads(ts, prog, case["old"], torch.float64)
        err = ajlib.impl_call(ts, c, torch.float64)
        res.append((err, ajlib.snapshot_grads(ts, prog)))
    return res


def run(chk):
    rng = random.Random(12000 + chk.seed)
    n = N_QUICK if chk.tier == "quick" else N_THOROUGH
    cases = [gen_case(rng, i) for i in range(n)]
    cases += [gen_case(rng, n + v, zero_variant=v) for v in range(6 if chk.tier == "quick" else 30)]
    chk.cov["rule"] = ("random DAGs (generic programs, chains of depth 8-30 with diamonds / unbind / detach "
                       "side branches, heads sharing an interior node, trunk/heads programs with and without "
                       "leaves reached around the features); model's walk on the node graph read off the "
                       "real tensors == leaf set from the harness' op DAG; defaulted call == explicit call "
                       "on twin graphs (all .grad incl. None-ness); overlapping defaults rejected")
    B = 12
    files = [(f"c12_{b}", model_leafsets(cases[b:b + B])) for b in range(0, len(cases), B)]
    outs = common.coq_run_files(files, "c12")
    sets_by_case = {}
    for b, out in zip(range(0, len(cases), B), outs):
        vals = common.parse_coq_values(out)
        for case, v in zip(cases[b:b + B], vals):
            sets_by_case[case["id"]] = v
    models = ajcheck.run_models(cases, "c12m")
    dist = {"backward": 0, "mtl": 0, "overlap_rejected": 0, "max_nodes": 0}
    for case in cases:
        prog = ajlib.Program.from_json(case["prog"])
        call = case["calls"][0]
        dist[case["kind"]] += 1
        # (1) model walk == DAG oracle
        for (tensors, excluded), mv in zip(case["sets"], sets_by_case[case["id"]]):
            code, leaves = mv[0], mv[1]
            want = ajlib.default_leaves(prog, tensors, excluded)
            chk.count({"id": case["id"], "tensors": tensors, "excluded": excluded}, nontrivial=len(want) > 1)
            chk.cov["traces_validated_against_impl"] += 1
            if code != 0 or sorted(leaves) != want:
                chk.violation(
                    f"correspondence: model walk from {tensors} excluding {excluded} returns {sorted(leaves)} "
                    f"(code {code}), the op DAG says {want}; theorems of props/C12.v no longer describe the code",
                    {"kind": "c12-walk", "case": case}, no_input=True)
        # (2) overlap -> rejection; else defaulted == explicit on twins
        ok_calls = True
        for ci, call in enumerate(case["calls"]):
            if not judge_call(chk, case, call, models[case["id"]][ci], dist):
                ok_calls = False
        if ok_calls and not any(_overlap(c) for c in case["calls"]):
            # (3) the model of the defaulted calls agrees with the exact oracle
            ajcheck.check_case(chk, "C12", case, models.get(case["id"]), dtypes=((torch.float64, 0.0),))
        if len(chk.violations) >= 3:
            break
    chk.cov["input_distribution"] = dist
    chk.assumptions += ["grad_fn / next_functions / AccumulateGrad.variable expose the graph the engine "
                        "differentiates (PyTorch contract)"]


def _overlap(call):
    if call["entry"] != "mtl":
        return False
    tp = {q for ps in call["eff_tasks"] for q in ps}
    return bool(tp & set(call["eff_shared"]))


def judge_call(chk, case, call, mr, dist):
    if True:
        overlap = _overlap(call)
        (e1, g1), (e2, g2) = twin(chk, case, call)
        rep = {"kind": "c12", "case": case, "call_index": case["calls"].index(call)}
        if overlap:
            dist["overlap_rejected"] += 1
            old = {t: (None if case["old"].get(str(t)) is None else [float(x) for x in case["old"][str(t)]]) for t in g1}
            unchanged = all((g1[t] is None) == (old[t] is None) and (g1[t] is None or g1[t][1] == old[t]) for t in g1)
            if e1 != "ValueError" or not unchanged:
                chk.violation(f"C12 default shared/task parameter sets overlap but the call "
                              f"{'was accepted' if e1 is None else 'raised ' + str(e1)}"
                              f"{'' if unchanged else ' after modifying .grad'}", rep)
            if mr["code"] != 1:
                chk.violation("correspondence: model does not reject overlapping defaults", rep, no_input=True)
                return False
            return e1 == "ValueError" and unchanged
        if e1 is not None or e2 is not None:
            chk.violation(f"C12 defaulted call raised {e1}, explicit call on the discovered leaves raised {e2}", rep)
            return False
        if g1 != g2:
            bad = [t for t in g1 if g1[t] != g2[t]]
            chk.violation(
                f"C12 the defaulted call and the explicit call with the leaves the tensors were computed "
                f"from differ on leaves {bad}: {[g1[t] for t in bad]} vs {[g2[t] for t in bad]}", rep)
            return False
        return True


def replay(chk, obj):
    case = obj["case"]
    call = case["calls"][obj.get("call_index", 0)]
    (e1, g1), (e2, g2) = twin(chk, case, call)
    print("defaulted:", e1, g1)
    print("explicit :", e2, g2)
    tp = {q for ps in call.get("eff_tasks", []) for q in ps}
    if call["entry"] == "mtl" and tp & set(call["eff_shared"]):
        return e1 == "ValueError"
    return e1 is None and e2 is None and g1 == g2
