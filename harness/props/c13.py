"""C13 — retain_graph means what it means in torch.autograd.
Obligations: coq/theories/props/C13.v (the sweeps torchjd issues and their flags; freed set equals
that of one engine run with the caller's flag; retain=True keeps the graph).
Correspondence (histories): programs with and without saved tensors; histories of up to 3 calls
from {backward, mtl_backward, torch.autograd.grad} x both flags x chunk sizes on the SAME graph.
Observable: success / RuntimeError of every call and the final .grad.  Three voices: the real
history, the Coq model (History.hrun: validates the model of the engine's freeing rule against the
real engine), and a TWIN graph driven by torch.autograd alone where every torchjd call is replaced
by one torch.autograd.grad with the same flag (the property's own oracle)."""
import itertools
import random

import torch

import ajcheck
import ajlib
import common
from ajlib import numel

N_QUICK, N_THOROUGH = 50, 250
ERR = {None: 0, "ValueError": 1, "RuntimeError": 2, "TypeError": 3}


def gen_skeleton(rng, idx):
    if idx % 2 == 0:
        for _ in range(200):
            prog = ajlib.gen_program(rng)
            outs = [t for t in range(prog.n()) if prog.req[t] and not prog.is_leaf[t]]
            leaves = [t for t in range(prog.n()) if prog.is_leaf[t] and prog.req[t]]
            if outs and len(leaves) >= 1:
                break
        rng.shuffle(outs)
        outs = outs[:rng.randint(1, 2)]
        while sum(numel(prog.shapes[o]) for o in outs) > 12 and len(outs) > 1:
            outs.pop()
        reach = [l for l in leaves if any(prog.reach(o, l) for o in outs)]
        if not reach:
            return gen_skeleton(rng, idx)
        sub = rng.sample(reach, rng.randint(1, len(reach)))
        m = sum(numel(prog.shapes[o]) for o in outs)
        alphabet = []
        for retain in (False, True):
            for k in (None, 1, 2, 3):
                alphabet.append(("backward", {"tensors": outs, "inputs": reach, "k": k, "retain": retain}))
            alphabet.append(("backward", {"tensors": outs, "inputs": sub, "k": None, "retain": retain}))
            alphabet.append(("torch", {"outs": outs, "ins": reach, "retain": retain}))
            alphabet.append(("torch", {"outs": outs, "ins": sub, "retain": retain}))
        return {"id": idx, "prog": prog.to_json(), "alphabet": alphabet, "m": m}
    # every third mtl program ends with an INACTIVE task (exactly-zero gradient w.r.t. the features): the last
    # sweep -- the only one that frees the trunk -- then carries an all-zero cotangent
    prog, feats, losses, tasks, shared = ajlib.gen_mtl(rng, nested=False, zero_last=(("all" if idx % 6 == 5 else True) if idx % 3 == 2 else False))
    # every feature must be used by some loss: an unused feature is still differentiated (and freed)
    # by mtl_backward while no torch.autograd call on the losses ever reaches it, so the
    # torch-only twin is not a reference for such programs
    if not shared or not all(any(prog.reach(l, f) for l in losses) for f in feats):
        return gen_skeleton(rng, idx)
    allp = list(dict.fromkeys([q for ps in tasks for q in ps] + shared))
    alphabet = []
    for retain in (False, True):
        for k in (None, 1, 2):
            alphabet.append(("mtl", {"losses": losses, "features": feats, "tasks": tasks, "shared": shared,
                                     "k": k, "retain": retain}))
        alphabet.append(("torch", {"outs": losses, "ins": allp, "retain": retain}))
        alphabet.append(("torch", {"outs": feats, "ins": shared, "retain": retain}))
        alphabet.append(("backward", {"tensors": feats[:1], "inputs": shared, "k": None, "retain": retain}))
        # follow-ups through ONE head at a time (first and last task): every head is freed, not only some
        for li in sorted({0, len(losses) - 1}):
            if tasks[li]:
                alphabet.append(("torch", {"outs": [losses[li]], "ins": tasks[li], "retain": retain}))
        # follow-ups rooted INSIDE a head: an intermediate tensor of a parameter-only branch
        for (pp, q) in getattr(prog, "probes", [])[:2]:
            alphabet.append(("torch", {"outs": [pp], "ins": [q], "retain": retain}))
    return {"id": idx, "prog": prog.to_json(), "alphabet": alphabet, "m": len(losses)}


def to_call(op):
    kind, a = op
    if kind == "backward":
        return {"entry": "backward", "tensors": a["tensors"], "inputs": a["inputs"], "agg": ["sum"],
                "k": a["k"], "retain": a["retain"]}
    if kind == "mtl":
        return {"entry": "mtl", "losses": a["losses"], "features": a["features"], "tasks": a["tasks"],
                "shared": a["shared"], "agg": ["sum"], "k": a["k"], "retain": a["retain"]}
    return None


def run_real(prog, history, twin=False):
    ts = prog.build(torch.float64)
    codes = []
    for op in history:
        kind, a = op
        if kind == "torch" or twin:
            if kind == "torch":
                outs, ins, retain = a["outs"], a["ins"], a["retain"]
            elif kind == "backward":
                outs, ins, retain = a["tensors"], a["inputs"], a["retain"]
            else:
                outs = a["losses"]
                ins = list(dict.fromkeys([q for ps in a["tasks"] for q in ps] + a["shared"]))
                retain = a["retain"]
            try:
                torch.autograd.grad([ts[o] for o in outs], [ts[i] for i in ins],
                                    [torch.ones_like(ts[o]) for o in outs], retain_graph=retain,
                                    allow_unused=True)
                codes.append(0)
            except RuntimeError:
                codes.append(2)
        else:
            err = ajlib.impl_call(ts, to_call(op), torch.float64)
            codes.append(ERR.get(err, 9))
        if codes[-1] != 0:
            break
    return codes, ajlib.snapshot_grads(ts, prog)


def c_hop(name, op):
    kind, a = op
    nl = ajlib.c_natlist
    if kind == "torch":
        return f"HTorchGrad {nl(a['outs'])} {nl(a['ins'])} {ajlib.c_bool(a['retain'])}"
    kk = "None" if a["k"] is None else f"(Some {a['k']}%nat)"
    A = "(fun J => Ok (agg_sum QN J))"
    if kind == "backward":
        return f"HBackward {A} {nl(a['tensors'])} {nl(a['inputs'])} {kk} {ajlib.c_bool(a['retain'])}"
    return (f"HMtl {A} {nl(a['losses'])} {nl(a['features'])} {ajlib.c_listlist(a['tasks'])} "
            f"{nl(a['shared'])} {kk} {ajlib.c_bool(a['retain'])}")


def model_source(skels):
    src = ajlib.AJ_HEADER + "From TJ Require Import History.\n"
    for sk in skels:
        prog = ajlib.Program.from_json(sk["prog"])
        ts = prog.build(torch.float64)
        graph = ajlib.Graph(ts)
        Dp = {}
        for h in sk["histories"]:
            for op in h:
                c = to_call(op)
                if c is not None:
                    Dp.update(ajlib.call_D(prog, ajcheck.prepare_call(prog, c)))
        name = f"P{sk['id']}"
        src += ajlib.c_prog(name, prog, graph, Dp)
        tids = ajlib.c_natlist(range(prog.n()))
        runs = []
        for h in sk["histories"]:
            ops = "; ".join(c_hop(name, op) for op in h)
            runs.append(f"(let r := hrun QN {name} (mk_store [] [] 0%nat) [{ops}] in (fst r, show_grads (snd r) {tids}))")
        src += "Eval vm_compute in [" + ";\n  ".join(runs) + "].\n"
    return src


def first_fail_prefix(codes):
    out = []
    for c in codes:
        out.append(c)
        if c != 0:
            break
    return out


def run(chk):
    rng = random.Random(13000 + chk.seed)
    thorough = chk.tier == "thorough"
    n = N_QUICK if not thorough else N_THOROUGH
    skels = [gen_skeleton(rng, i) for i in range(n)]
    for sk in skels:
        alpha = sk["alphabet"]
        hs = []
        # all pairs (first call x follow-up) sampled, some triples
        pairs = list(itertools.product(range(len(alpha)), repeat=2))
        rng.shuffle(pairs)
        for (a, b) in pairs[:(40 if thorough else 10)]:
            hs.append([alpha[a], alpha[b]])
        for _ in range(20 if thorough else 4):
            hs.append([rng.choice(alpha) for _ in range(3)])
        sk["histories"] = hs
    chk.cov["rule"] = ("per program (with/without saved tensors; trunk/heads programs with separate heads): "
                       "histories of 2-3 calls over {backward(k in None,1,2,3; inputs = all reachable leaves or a "
                       "subset), mtl_backward(k in None,1,2), torch.autograd.grad(same or other roots/inputs)} "
                       "x retain_graph in {False, True}; success/RuntimeError per call and final .grad compared "
                       "between the real history, the Coq model (History.hrun) and a torch.autograd-only twin")
    B = 5
    files = [(f"c13_{b}", model_source(skels[b:b + B])) for b in range(0, len(skels), B)]
    outs = common.coq_run_files(files, "c13")
    dist = {"histories": 0, "with_failure": 0, "retain_false_calls": 0}
    for b, out in zip(range(0, len(skels), B), outs):
        vals = common.parse_coq_values(out)
        for sk, mv in zip(skels[b:b + B], vals):
            prog = ajlib.Program.from_json(sk["prog"])
            for h, m in zip(sk["histories"], mv):
                mcodes, mgrads = list(m[0]), ajlib.parse_grads(m[1])
                codes, grads = run_real(prog, h)
                tcodes, _ = run_real(prog, h, twin=True)
                dist["histories"] += 1
                dist["with_failure"] += any(c != 0 for c in codes)
                dist["retain_false_calls"] += sum(1 for op in h if not op[1]["retain"])
                chk.count({"id": sk["id"], "history": [(op[0], op[1].get("k"), op[1]["retain"]) for op in h],
                           "codes": codes}, nontrivial=any(c != 0 for c in codes) or len(h) > 2)
                chk.cov["traces_validated_against_impl"] += 1
                rep = {"kind": "c13", "prog": sk["prog"], "history": h, "observed": codes, "twin": tcodes,
                       "model": first_fail_prefix(mcodes)}
                if codes != tcodes:
                    chk.violation(
                        f"C13 history {[(op[0], op[1].get('k'), op[1]['retain']) for op in h]}: calls end with "
                        f"{codes}, the same history driven by torch.autograd alone on a twin graph gives {tcodes} "
                        "(0 = ok, 2 = RuntimeError)", rep)
                    continue
                if first_fail_prefix(mcodes) != codes:
                    chk.violation(
                        f"correspondence: model predicts outcomes {first_fail_prefix(mcodes)}, observed {codes}; "
                        "theorems of props/C13.v no longer describe the code", rep, no_input=True)
                    continue
                if all(c == 0 for c in codes):
                    mg = {t: (None if g is None else (g[1], list(g[2]))) for t, g in enumerate(mgrads)
                          if prog.is_leaf[t]}
                    exp = {t: (None if g is None else g[1]) for t, g in mg.items()}
                    eq, t = ajlib.grads_match(grads, exp, 0.0)
                    if not eq:
                        chk.violation(f"correspondence: final .grad of leaf {t} differs from the model after the "
                                      f"history (identical repeated calls must add identical updates)",
                                      dict(rep, got=str(grads.get(t)), want=str(exp.get(t))), no_input=True)
            if len(chk.violations) >= 3:
                break
    chk.cov["input_distribution"] = dist
    chk.assumptions += [
        "the engine frees exactly the executed nodes that hold saved tensors (model ag_sweep/exec_nodes, "
        "validated here against the real engine)",
        "after a failed call the history stops (partial freeing inside a failed engine run is not modelled)"]


def replay(chk, obj):
    prog = ajlib.Program.from_json(obj["prog"])
    h = [tuple(op) for op in obj["history"]]
    codes, _ = run_real(prog, h)
    tcodes, _ = run_real(prog, h, twin=True)
    print("observed:", codes, "torch-only twin:", tcodes, "model:", obj.get("model"))
    return codes == tcodes and (obj.get("model") is None or obj["model"] == codes)
