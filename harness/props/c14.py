"""C14 — transform pipelines are key-typed.
Obligations: coq/theories/props/C14.v (structural induction on terms: any depth, any key universe).
Correspondence: exhaustive small scope.  Every term of nesting depth <= 2 over a universe of 2 keys
(quick) / 3 keys (thorough) built from Init, Select, Diagonalize, Stack, Conjunction, Composition,
Accumulate (+ sampled depth-3 terms) is built from the real classes and as a model term:
constructor acceptance vs wf, required_keys / output_keys, then application to dictionaries with
exactly the required keys (every admissible type) and with a wrong key set: exception class or
(result type, keys, values, .grad effects) must agree.  Dictionary creation: all 5 types x key/value
shape combinations; mutators must raise TypeError."""
import itertools
import random
from fractions import Fraction

import torch

import ajlib
import common
from torchjd.autojac._transform import (
    Accumulate, Conjunction, Diagonalize, EmptyTensorDict, Gradients, GradientVectors, Init,
    JacobianMatrices, Jacobians, Select, Stack, TensorDict)
from torchjd.autojac._transform.base import Composition

SHAPES3 = [(), (2,), (2, 2)]
KINDS = {"EmptyTensorDict": 0, "Gradients": 1, "Jacobians": 2, "GradientVectors": 3,
         "JacobianMatrices": 4, "TensorDict": 5}
KCLS = {0: EmptyTensorDict, 1: Gradients, 2: Jacobians, 3: GradientVectors, 4: JacobianMatrices,
        5: TensorDict}


# ------------------------------------------------------------------------------------------------
# terms
# ------------------------------------------------------------------------------------------------
def atoms(nk):
    ks = list(range(nk))
    subsets = [list(c) for r in range(nk + 1) for c in itertools.combinations(ks, r)]
    out = []
    for s in subsets:
        out.append(("Init", tuple(s)))
        out.append(("Acc", tuple(s)))
    out.append(("Init", (0, 0)))                       # duplicates collapse silently (set)
    for a in subsets:
        for b in subsets:
            out.append(("Select", tuple(a), tuple(b)))
    for r in range(nk + 1):
        for p in itertools.permutations(ks, r):
            out.append(("Diag", tuple(p)))
    out.append(("Diag", (0, 0)))                       # duplicate: rejected by ordered_set
    if nk > 1:
        out.append(("Diag", (0, 1, 0)))
    return out


def depth2(nk, rng=None, limit=None):
    A = atoms(nk)
    terms = list(A)
    for a in A:
        terms.append(("Stack", (a,)))
        terms.append(("Conj", (a,)))
    terms.append(("Stack", ()))
    terms.append(("Conj", ()))
    pairs = [(a, b) for a in A for b in A]
    if limit and len(pairs) > limit:
        pairs = rng.sample(pairs, limit)
    for a, b in pairs:
        terms.append(("Comp", a, b))
        terms.append(("Conj", (a, b)))
        terms.append(("Stack", (a, b)))
    return terms


def random_term(rng, nk, depth):
    A = atoms(nk)
    if depth == 0:
        return rng.choice(A)
    c = rng.random()
    if c < 0.2:
        return rng.choice(A)
    if c < 0.55:
        return ("Comp", random_term(rng, nk, depth - 1), random_term(rng, nk, depth - 1))
    n = rng.choice([1, 2, 2, 3])
    return (rng.choice(["Conj", "Stack"]), tuple(random_term(rng, nk, depth - 1) for _ in range(n)))


def guided_term(rng, nk, depth):
    """mostly well-formed nested terms: pick an inner term, then an outer one requiring its outputs"""
    ks = list(range(nk))

    def sub():
        return [k for k in ks if rng.random() < 0.6]
    if depth == 0:
        return ("Init", tuple(sub()))
    inner = guided_term(rng, nk, depth - 1)
    outk = sorted(model_keys(inner)[1])
    c = rng.random()
    if c < 0.25:
        keys = [k for k in outk if rng.random() < 0.6]
        return ("Comp", ("Select", tuple(keys), tuple(outk)), inner)
    if c < 0.45:
        o = list(outk)
        rng.shuffle(o)
        return ("Comp", ("Diag", tuple(o)), inner)
    if c < 0.6:
        return ("Comp", ("Acc", tuple(outk)), inner)
    if c < 0.8:
        k1 = [k for k in outk if rng.random() < 0.5]
        k2 = [k for k in outk if k not in k1]
        return ("Comp", ("Conj", (("Select", tuple(k1), tuple(outk)), ("Select", tuple(k2), tuple(outk)))), inner)
    other = guided_term(rng, nk, depth - 1)
    return (rng.choice(["Stack", "Conj"]), (inner, other))


def model_keys(t):
    """harness-side (required, output) key sets of a term — used only by the generator"""
    h = t[0]
    if h == "Init":
        return set(), set(t[1])
    if h == "Acc":
        return set(t[1]), set()
    if h == "Select":
        return set(t[2]), set(t[1])
    if h == "Diag":
        return set(t[1]), set(t[1])
    if h == "Comp":
        return model_keys(t[2])[0], model_keys(t[1])[1]
    req, out = set(), set()
    for x in t[1]:
        r, o = model_keys(x)
        req |= r
        out |= o
    return req, out


def coq_term(t):
    h = t[0]
    nl = ajlib.c_natlist
    if h == "Init":
        return f"(TInit {nl(t[1])})"
    if h == "Acc":
        return f"(TAccumulate {nl(t[1])})"
    if h == "Select":
        return f"(TSelect {nl(t[1])} {nl(t[2])})"
    if h == "Diag":
        return f"(TDiag {nl(t[1])})"
    if h == "Comp":
        return f"(TComp {coq_term(t[1])} {coq_term(t[2])})"
    if h == "Stack":
        return "(TStack [" + "; ".join(coq_term(x) for x in t[1]) + "])"
    if h == "Conj":
        return "(TConj [" + "; ".join(coq_term(x) for x in t[1]) + "])"
    raise KeyError(h)


def build_real(t, K):
    h = t[0]
    if h == "Init":
        return Init([K[i] for i in t[1]])
    if h == "Acc":
        return Accumulate([K[i] for i in t[1]])
    if h == "Select":
        return Select([K[i] for i in t[1]], [K[i] for i in t[2]])
    if h == "Diag":
        return Diagonalize([K[i] for i in t[1]])
    if h == "Comp":
        return Composition(build_real(t[1], K), build_real(t[2], K))
    if h == "Stack":
        return Stack([build_real(x, K) for x in t[1]])
    if h == "Conj":
        return Conjunction([build_real(x, K) for x in t[1]])
    raise KeyError(h)


# static kinds (the generic parameters of the Python classes): which input types a term admits
def out_kind(t, k):
    """declared result type for input type k, or None when the application is ill-typed"""
    h = t[0]
    if h == "Init":
        return 1 if k == 0 else None
    if h == "Acc":
        return 0 if k in (0, 1) else None
    if h == "Select":
        return k
    if h == "Diag":
        return 2 if k in (0, 1) else None
    if h == "Comp":
        m = out_kind(t[2], k)
        return None if m is None else out_kind(t[1], m)
    if h == "Stack":
        for x in t[1]:
            m = out_kind(x, k)
            if m is None or m not in (0, 1):
                return None
        return 2
    if h == "Conj":
        acc = 0
        for x in t[1]:
            m = out_kind(x, k)
            if m is None:
                return None
            acc = m if acc == 0 else (acc if m in (0, acc) else 5)
        return acc
    raise KeyError(h)


def make_keys(nk, dtype=torch.float64):
    return [torch.zeros(SHAPES3[i], dtype=dtype, requires_grad=True) for i in range(nk)]


def dict_values(keyset, kind, salt):
    """exact integer values for an input dictionary of the given type"""
    vals = {}
    for k in sorted(keyset):
        shape = SHAPES3[k]
        n = ajlib.numel(shape)
        if kind == 1:
            vals[k] = (shape, [salt + 3 * k + j + 1 for j in range(n)])
        elif kind == 2:
            vals[k] = ((2,) + shape, [salt + 5 * k + j + 1 for j in range(2 * n)])
        elif kind == 3:
            vals[k] = ((n,), [salt + 7 * k + j + 1 for j in range(n)])
        elif kind == 4:
            vals[k] = ((2, n), [salt + 11 * k + j + 1 for j in range(2 * n)])
    return vals


def coq_dict(kind, vals):
    items = []
    for k, (shape, data) in vals.items():
        if kind in (2, 4):
            trail = shape[1:]
            n = ajlib.numel(trail)
            rows = [data[r * n:(r + 1) * n] for r in range(shape[0])]
            items.append(f"({k}%nat, mk_batched {ajlib.c_shape(trail)} {common.cqmat(rows)})")
        else:
            items.append(f"({k}%nat, mk_plain {ajlib.c_shape(shape)} {common.cqvec(data)})")
    return f"(mkDict (kind_of_code {kind}%nat) [" + "; ".join(items) + "])"


def real_dict(kind, vals, K):
    d = {K[k]: torch.tensor([float(x) for x in data], dtype=torch.float64).reshape(shape)
         for k, (shape, data) in vals.items()}
    return KCLS[kind](d)


def apply_real(t, nk, kind, vals):
    K = make_keys(nk)
    tr = build_real(t, K)
    d = real_dict(kind, vals, K)
    res = {"error": None}
    try:
        out = tr(d)
        res["kind"] = KINDS[type(out).__name__]
        items = {}
        for key, v in out.items():
            idx = next(i for i, kk in enumerate(K) if kk is key)
            items[idx] = (tuple(v.shape), [Fraction(float(x)) for x in v.reshape(-1).tolist()])
        res["items"] = items
    except Exception as e:  # noqa: BLE001
        res["error"] = type(e).__name__
    res["grads"] = [None if k.grad is None else
                    (tuple(k.grad.shape), [Fraction(float(x)) for x in k.grad.reshape(-1).tolist()])
                    for k in K]
    return res


def try_build(t, nk):
    K = make_keys(nk)
    try:
        tr = build_real(t, K)
    except Exception as e:  # noqa: BLE001
        return type(e).__name__, None, None
    idx = {id(k): i for i, k in enumerate(K)}
    return None, sorted(idx[id(k)] for k in tr.required_keys), sorted(idx[id(k)] for k in tr.output_keys)


# ------------------------------------------------------------------------------------------------
def applications(t, nk, req, okind_only=True):
    """input dictionaries for an accepted term: exactly the required keys for each admissible
    type, plus wrong key sets (one missing / one extra)"""
    apps = []
    req = set(req)
    kinds = [0] if not req else [1, 2]
    for kind in kinds:
        if out_kind(t, kind) is None:
            continue
        apps.append((kind, dict_values(req, kind, 0)))
    # wrong key sets: the key check must fire whatever the type
    wrong = []
    if req:
        wrong.append(set(sorted(req)[1:]))
    extra = [k for k in range(nk) if k not in req]
    if extra:
        wrong.append(req | {extra[0]})
    for w in wrong:
        kind = 1 if w else 0
        apps.append((kind, dict_values(w, kind, 0)))
    return apps


def model_batch(nk, batch):
    """batch: list of (term, [apps]) -> Coq source evaluating wf, keys and every application"""
    src = ajlib.AJ_HEADER
    shapes = "[" + "; ".join(ajlib.c_shape(s) for s in SHAPES3[:nk]) + "]"
    tr = "[" + "; ".join("true" for _ in range(nk)) + "]"
    src += (f"Definition P0 : prog Q := mk_prog {shapes} [] [] {tr} {tr} [] [] [] [] [].\n"
            "Definition A0 (J : list (list Q)) : res (list Q) := Ok (agg_sum QN J).\n"
            "Definition S0 := mk_store [] [] 0%nat.\n"
            f"Definition tids := {ajlib.c_natlist(range(nk))}.\n"
            "Definition info (t : tr) := (wf t, required_keys t, output_keys t).\n"
            "Definition app (t : tr) d := let r := build_and_run QN P0 A0 t S0 d in\n"
            "  (show_rdict (fst r), show_grads (snd r) tids).\n")
    lines = []
    for t, apps in batch:
        ct = coq_term(t)
        alist = "; ".join(f"app {ct} {coq_dict(k, v)}" for k, v in apps)
        lines.append(f"(info {ct}, [{alist}])")
    src += "Eval vm_compute in [" + ";\n".join(lines) + "].\n"
    return src


def compare(chk, t, nk, built, model_info, apps, model_apps):
    (mwf, mreq, mout) = model_info
    err, req, out = built
    rep = {"kind": "c14", "term": repr(t), "nk": nk}
    if (err is None) != bool(mwf):
        chk.violation(
            f"C14 construction of {t}: implementation {'accepts' if err is None else 'raises ' + err}, "
            f"the rule says {'accept' if mwf else 'reject'}", rep)
        return False
    if err is not None:
        if err != "ValueError":
            chk.violation(f"C14 construction of {t} raised {err}, not ValueError", rep)
            return False
        return True
    if sorted(set(mreq)) != req or sorted(set(mout)) != out:
        chk.violation(f"C14 keys of {t}: required {req} output {out}, model {sorted(set(mreq))} / {sorted(set(mout))}",
                      rep, no_input=True)
        return False
    ok = True
    for (kind, vals), ma in zip(apps, model_apps):
        mcode, (mkind, mitems), mgrads = ma
        r = apply_real(t, nk, kind, vals)
        chk.cov["traces_validated_against_impl"] += 1
        rep2 = dict(rep, input_kind=kind, input_keys=sorted(vals), observed={k: str(v) for k, v in r.items()})
        wrong_keys = set(vals) != set(req)
        if wrong_keys:
            if r["error"] != "ValueError" or any(g is not None for g in r["grads"]):
                chk.violation(f"C14 {t} applied to keys {sorted(vals)} (requires {req}): "
                              f"expected ValueError and no effect, got {r['error']}", rep2)
                ok = False
            if mcode != 1:
                chk.violation("C14 correspondence: model does not reject wrong key set", rep2, no_input=True)
                ok = False
            continue
        icode = ajlib.ERR_CODE.get(r["error"], 9)
        if icode != mcode:
            chk.violation(f"C14 correspondence: {t} on type {kind}: implementation "
                          f"{r['error'] or 'succeeds'}, model code {mcode}", rep2, no_input=True)
            ok = False
            continue
        if icode == 0:
            want_kind = out_kind(t, kind)
            if r["kind"] != want_kind or set(r["items"]) != set(out):
                chk.violation(f"C14 {t} on type {kind}: result type {r['kind']} keys {sorted(r['items'])}; "
                              f"declared type {want_kind} keys {out}", rep2)
                ok = False
                continue
            mi = {k: ajlib.parse_tens(tp) for (k, tp) in mitems}
            if mkind != r["kind"] or mi != r["items"]:
                chk.violation(f"C14 correspondence: result of {t} differs from the model "
                              f"(type {r['kind']} vs {mkind})", dict(rep2, model=str(mi)[:800]), no_input=True)
                ok = False
                continue
        mg = [None if g is None else g[1:] for g in ajlib.parse_grads(mgrads)]
        if mg != r["grads"]:
            chk.violation(f"C14 correspondence: .grad effects of {t} differ from the model",
                          dict(rep2, model=str(mg)[:800]), no_input=True)
            ok = False
    return ok


def run_terms(chk, nk, terms, tag):
    B = 400
    batches = []
    for b in range(0, len(terms), B):
        batch = []
        for t in terms[b:b + B]:
            built = try_build(t, nk)
            apps = applications(t, nk, built[1]) if built[0] is None else []
            batch.append((t, apps, built))
        batches.append(batch)
    files = [(f"c14_{tag}_{i}", model_batch(nk, [(t, a) for t, a, _ in batch])) for i, batch in enumerate(batches)]
    outs = common.coq_run_files(files, "c14" + tag)
    nacc = 0
    for batch, out in zip(batches, outs):
        vals = common.parse_coq_values(out)[0]
        for (t, apps, built), v in zip(batch, vals):
            info, mapps = tuple(v[:3]), v[3]
            chk.count({"term": repr(t), "nk": nk, "accepted": built[0] is None}, nontrivial=t[0] in ("Comp", "Conj", "Stack"))
            nacc += built[0] is None
            compare(chk, t, nk, built, info, apps, mapps)
            if len(chk.violations) >= 5:
                return nacc
    return nacc


# ------------------------------------------------------------------------------------------------
# dictionary creation and immutability
# ------------------------------------------------------------------------------------------------
VSHAPES = [()] + [s for r in (1, 2, 3) for s in itertools.product((1, 2, 3), repeat=r)]


def dict_creation(chk, thorough):
    kshapes = [(), (1,), (2,), (3,), (1, 1), (2, 2), (1, 2), (2, 1), (3, 1), (2, 1, 2)]
    vsh = VSHAPES if thorough else [s for s in VSHAPES if len(s) <= 2] + [(2, 2, 2), (1, 2, 1), (2, 1, 2), (3, 2, 2)]
    cases = []
    for kind in (1, 2, 3, 4, 0):
        for ks in kshapes:
            for vs in vsh:
                cases.append((kind, [(ks, vs)]))
    # two entries: unique first dimension
    # (a batch of ZERO rows is a first dimension like any other: 0 next to 2 is a contradiction, 0 next to 0 is not)
    for kind in (2, 4):
        for a in (0, 1, 2, 3):
            for b in (0, 1, 2, 3):
                ks1, ks2 = (2,), ()
                if kind == 2:
                    cases.append((kind, [(ks1, (a,) + ks1), (ks2, (b,) + ks2)]))
                else:
                    cases.append((kind, [(ks1, (a, 2)), (ks2, (b, 1))]))
        for dims in ((0, 0, 2), (0, 2, 2), (2, 0, 2), (0, 0, 0), (2, 2, 0), (1, 1, 1), (3, 0, 0)):
            kss = [(2,), (), (1,)]
            if kind == 2:
                cases.append((kind, [(ks, (d,) + ks) for ks, d in zip(kss, dims)]))
            else:
                cases.append((kind, [(ks, (d, ajlib.numel(ks))) for ks, d in zip(kss, dims)]))
    cases.append((0, []))
    for kind in (1, 2, 3, 4, 5):
        cases.append((kind, []))
    src = ajlib.AJ_HEADER
    items = []
    for kind, pairs in cases:
        ps = "; ".join(f"({ajlib.c_shape(k)}, {ajlib.c_shape(v)})" for k, v in pairs)
        items.append(f"shapes_ok (kind_of_code {kind}%nat) [{ps}]")
    src += "Eval vm_compute in [" + ";\n".join(items) + "].\n"
    out = common.coq_run_files([("c14dict", src)], "c14d")[0]
    mres = common.parse_coq_values(out)[0]
    for (kind, pairs), m in zip(cases, mres):
        d = {torch.zeros(k): torch.zeros(v) for k, v in pairs}
        try:
            KCLS[kind](d)
            acc = True
            err = None
        except Exception as e:  # noqa: BLE001
            acc = False
            err = type(e).__name__
        # second road to the same constructor: an EmptyTensorDict (a subclass of every dictionary type) filled
        # with the one in-place operation that is not blocked, |=, as the library's own _union does
        if pairs and kind != 0:
            try:
                e = KCLS[0]({})
                e |= d
                KCLS[kind](e)
                acc2 = True
            except Exception:  # noqa: BLE001
                acc2 = False
            if acc2 != acc:
                chk.violation(
                    f"C14 dictionary creation: type {kind} with (key shape, value shape) {pairs} is "
                    f"{'accepted' if acc2 else 'rejected'} when built from an EmptyTensorDict filled with |= but "
                    f"{'accepted' if acc else 'rejected'} when built from a plain dict",
                    {"kind": "c14-dict", "dict_kind": kind, "pairs": pairs, "via": "ior"})
        chk.count({"dict_kind": kind, "pairs": str(pairs)}, nontrivial=True)
        chk.cov["traces_validated_against_impl"] += 1
        if acc != bool(m):
            chk.violation(
                f"C14 dictionary creation: type {kind} with (key shape, value shape) {pairs}: "
                f"implementation {'accepts' if acc else 'rejects (' + str(err) + ')'}, rule says "
                f"{'accept' if m else 'reject'}", {"kind": "c14-dict", "dict_kind": kind, "pairs": pairs})
    # immutability (observed, not proved)
    for kind, mk in ((0, lambda k: {}), (1, lambda k: {k: torch.ones(2)}), (2, lambda k: {k: torch.ones(3, 2)}),
                     (3, lambda k: {k: torch.ones(2)}), (4, lambda k: {k: torch.ones(3, 2)}), (5, lambda k: {k: torch.ones(5)})):
        k = torch.zeros(2)
        d = KCLS[kind](mk(k))
        before = dict(d)
        muts = {
            "__setitem__": lambda: d.__setitem__(k, torch.ones(2)),
            "__delitem__": lambda: d.__delitem__(k),
            "update": lambda: d.update({}),
            "pop": lambda: d.pop(k),
            "popitem": lambda: d.popitem(),
            "setdefault": lambda: d.setdefault(k, torch.ones(2)),
            "clear": lambda: d.clear(),
        }
        for name, f in muts.items():
            try:
                f()
                err = None
            except Exception as e:  # noqa: BLE001
                err = type(e).__name__
            chk.count({"mutator": name, "dict_kind": kind}, nontrivial=True)
            same = len(d) == len(before) and all(d[x] is before[x] for x in before)
            if err != "TypeError" or not same:
                chk.violation(f"C14 dictionary of type {kind}: {name} did not raise TypeError "
                              f"(got {err}) or changed the mapping",
                              {"kind": "c14-mut", "dict_kind": kind, "mutator": name})


# terms that are well-formed and whose members each return a valid dictionary, but whose UNION is ill-typed
# (Jacobians with different numbers of rows): the result must be re-validated, i.e. the application raises
CORPUS3 = [
    ("Conj", (("Stack", (("Init", (0,)),)), ("Stack", (("Init", (1,)), ("Init", (1,)))))),
    ("Conj", (("Stack", (("Init", (0,)), ("Init", (0,)), ("Init", (0,)))), ("Stack", (("Init", (2,)),)))),
    ("Conj", (("Comp", ("Diag", (0,)), ("Select", (0,), (0, 1, 2))),
              ("Comp", ("Diag", (1, 2)), ("Select", (1, 2), (0, 1, 2))))),
    ("Conj", (("Comp", ("Diag", (2,)), ("Select", (2,), (0, 2))), ("Comp", ("Diag", (0,)), ("Select", (0,), (0, 2))))),
    ("Conj", (("Stack", (("Init", (0,)),)), ("Stack", (("Init", (1,)),)), ("Stack", (("Init", (2,)), ("Init", (2,)))))),
]


def run(chk):
    rng = random.Random(1400 + chk.seed)
    thorough = chk.tier == "thorough"
    chk.cov["rule"] = (
        "exhaustive: all terms of nesting depth <= 2 (atoms Init/Accumulate over all key subsets, "
        "Select over all (keys, required) pairs, Diagonalize over all duplicate-free orders + "
        "duplicates; all binary Composition / Conjunction / Stack of atoms, unary and empty "
        "Conjunction/Stack) over 2 keys (quick) or 3 keys (thorough; binary terms sampled in quick), "
        "plus sampled depth-3 terms; each accepted term applied to its required keys for every "
        "admissible dictionary type and to wrong key sets; dictionary creation over all "
        "(type, key shape, value shape); mutators")
    chk.cov["exhaustive"] = True
    run_terms(chk, 3, CORPUS3, "corpus")
    chk.notes["corpus_terms_jointly_ill_typed"] = len(CORPUS3)
    t2 = depth2(2)
    n_acc = run_terms(chk, 2, t2, "k2")
    chk.notes["terms_2keys_depth2"] = len(t2)
    if not chk.violations:
        if thorough:
            t3 = depth2(3)
        else:
            t3 = depth2(3, rng, limit=1500)
        n_acc += run_terms(chk, 3, t3, "k3")
        chk.notes["terms_3keys_depth2"] = len(t3)
    if not chk.violations:
        n3 = 20000 if thorough else 1500
        deep = [random_term(rng, 3, 2) for _ in range(n3 // 2)] + [guided_term(rng, 3, rng.choice([2, 3])) for _ in range(n3 // 2)]
        n_acc += run_terms(chk, 3, deep, "d3")
        chk.notes["terms_depth3_sampled"] = len(deep)
    chk.notes["accepted_terms"] = n_acc
    if not chk.violations:
        dict_creation(chk, thorough)
    chk.assumptions += [
        "dictionary immutability is observed on the implementation (true by construction in a "
        "functional model)",
        "applications are compared on well-typed inputs (the generic parameters of the Python classes)"]


def replay(chk, obj):
    if obj.get("kind") in ("c14-dict", "c14-mut"):
        dict_creation(chk, False)
        return not chk.violations
    t = eval(obj["term"])  # noqa: S307  (a term written by this harness)
    run_terms(chk, obj["nk"], [t], "rp")
    return not chk.violations
