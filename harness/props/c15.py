"""C15 — each building-block transform computes its specified linear map, for all shapes.
Obligations: coq/theories/props/C15.v.
Correspondence: the transform classes of torchjd.autojac._transform are instantiated directly (the
property is about these blocks) on random programs / key sets (0-d to 4-d shapes, size-1 dims,
equal-numel keys), random integer cotangents, batch sizes 1-6, all chunk sizes; every output
dictionary is compared exactly with the Coq model (run at QN) and with the harness' own reference
(exact forward-mode Jacobians).  Also: dictionary insertion order different from the key order,
the SAME Jac instance applied to batches of different sizes, Jac == stacked Grad, linearity,
chaining through a cut."""
import random
from fractions import Fraction

import torch

import ajlib
import common
from ajlib import numel
from torchjd.aggregation import Constant, Sum
from torchjd.autojac._transform import (
    Aggregate, Diagonalize, EmptyTensorDict, Grad, Gradients, Init, Jac, Jacobians, Select, Stack)

N_QUICK, N_THOROUGH = 60, 900


def c_val(kind, shape, data):
    """Coq tens for a value of full shape `shape` in a dictionary of the given kind"""
    if kind in (2, 4):
        trail = shape[1:]
        n = numel(trail)
        rows = [data[r * n:(r + 1) * n] for r in range(shape[0])]
        return f"mk_batched {ajlib.c_shape(trail)} {common.cqmat(rows)}"
    return f"mk_plain {ajlib.c_shape(shape)} {common.cqvec(data)}"


def c_dict(kind, vals):
    items = "; ".join(f"({k}%nat, {c_val(kind, s, d)})" for k, (s, d) in vals.items())
    return f"(mkDict (kind_of_code {kind}%nat) [{items}])"


def t_dict(cls, vals, ts, order=None):
    keys = list(vals) if order is None else order
    return cls({ts[k]: torch.tensor([float(x) for x in vals[k][1]], dtype=torch.float64).reshape(vals[k][0])
                for k in keys})


def read_dict(out, ts):
    items = {}
    for key, v in out.items():
        idx = next(i for i, kk in enumerate(ts) if kk is key)
        items[idx] = (tuple(v.shape), [Fraction(float(x)) for x in v.reshape(-1).tolist()])
    return type(out).__name__, items


def rand_vals(rng, n, lo=-4, hi=4):
    return [rng.randint(lo, hi) for _ in range(n)]


# ------------------------------------------------------------------------------------------------
def gen_case(rng, idx):
    """one program and a list of block applications ('apps'); each app has a Coq term, an input
    dictionary, a way to build the real transform, and a reference result"""
    prog = ajlib.gen_program(rng)
    n = prog.n()
    req = [t for t in range(n) if prog.req[t]]
    nonleaf = [t for t in req if not prog.is_leaf[t]]
    apps = []
    # Init
    vals = rng.sample(range(n), rng.randint(0, min(4, n)))
    apps.append({"what": "init", "term": f"(TInit {ajlib.c_natlist(vals)})", "kind": 0, "in": {},
                 "args": vals})
    # Diagonalize, with an input mapping whose insertion order differs from the key order
    ks = rng.sample(range(n), rng.randint(1, min(4, n)))
    dvals = {k: (prog.shapes[k], rand_vals(rng, numel(prog.shapes[k]), 1, 9)) for k in ks}
    ins_order = list(ks)
    rng.shuffle(ins_order)
    apps.append({"what": "diag", "term": f"(TDiag {ajlib.c_natlist(ks)})", "kind": 1, "in": dvals,
                 "args": ks, "order": ins_order})
    # Stack of Selects (zeros where a key is absent)
    if len(ks) >= 1:
        subs = [[k for k in ks if rng.random() < 0.6] for _ in range(rng.randint(1, 3))]
        term = "(TStack [" + "; ".join(f"TSelect {ajlib.c_natlist(s)} {ajlib.c_natlist(ks)}" for s in subs) + "])"
        apps.append({"what": "stack", "term": term, "kind": 1, "in": dvals, "args": (subs, ks)})
    # Aggregate on a Jacobians dictionary
    ak = rng.sample(range(n), rng.randint(1, min(4, n)))
    b = rng.randint(1, 4)
    jvals = {k: ((b,) + tuple(prog.shapes[k]), rand_vals(rng, b * numel(prog.shapes[k]))) for k in ak}
    w = ajlib_weights(rng, b)
    apps.append({"what": "aggregate", "term": f"(TAggregate {ajlib.c_natlist(ak)})", "kind": 2, "in": jvals,
                 "args": ak, "agg": ["constant", w], "order": list(reversed(ak))})
    # Grad and Jac on the program
    if nonleaf:
        outs = rng.sample(nonleaf, rng.randint(1, min(3, len(nonleaf))))
        ins = rng.sample(req, rng.randint(1, min(4, len(req))))
        cot = {o: (prog.shapes[o], rand_vals(rng, numel(prog.shapes[o]))) for o in outs}
        apps.append({"what": "grad", "term": f"(TGrad {ajlib.c_natlist(outs)} {ajlib.c_natlist(ins)} true)",
                     "kind": 1, "in": cot, "args": (outs, ins)})
        if len(ins) >= 2:
            # Stack of per-output Grad pipelines whose key SETS coincide but whose key ORDERS differ (inputs
            # listed in rotated orders) and whose values differ: rows must follow the keys, not the positions
            so = [rng.choice(nonleaf) for _ in range(rng.randint(2, 3))]
            orders = [ins[r % len(ins):] + ins[:r % len(ins)] for r in range(len(so))]
            orders[-1] = list(reversed(ins))
            term = "(TStack [" + "; ".join(
                f"TComp (TGrad {ajlib.c_natlist([o])} {ajlib.c_natlist(od)} true) (TInit {ajlib.c_natlist([o])})"
                for o, od in zip(so, orders)) + "])"
            apps.append({"what": "stack_grad", "term": term, "kind": 0, "in": {}, "args": (so, orders)})
        for bsz in (rng.randint(1, 6), rng.randint(2, 5)):
            jc = {o: ((bsz,) + tuple(prog.shapes[o]), rand_vals(rng, bsz * numel(prog.shapes[o]))) for o in outs}
            for k in [None] + list(range(1, bsz + 2)):          # every chunk size, ragged last chunks included
                kk = "None" if k is None else f"(Some {k}%nat)"
                apps.append({"what": "jac", "kind": 2, "in": jc, "args": (outs, ins, k),
                             "term": f"(TJac {ajlib.c_natlist(outs)} {ajlib.c_natlist(ins)} {kk} true)"})
    return {"id": idx, "prog": prog.to_json(), "apps": apps}


def ajlib_weights(rng, b):
    w = list(range(1, b + 1))
    rng.shuffle(w)
    return [x if rng.random() < 0.8 else -x for x in w]


def model_source(cases):
    src = ajlib.AJ_HEADER
    for case in cases:
        prog = ajlib.Program.from_json(case["prog"])
        Dp = {}
        for a in case["apps"]:
            if a["what"] in ("grad", "jac"):
                outs, ins = a["args"][0], a["args"][1]
                for o in outs:
                    for i in ins:
                        Dp[(o, i)] = ajlib.D_nonleaf(prog, o, i)
            if a["what"] == "stack_grad":
                for o, od in zip(*a["args"]):
                    for i in od:
                        Dp[(o, i)] = ajlib.D_nonleaf(prog, o, i)
        name = f"P{case['id']}"
        src += ajlib.c_prog(name, prog, None, Dp)
        runs = []
        for a in case["apps"]:
            A = ajlib.c_agg(tuple(a.get("agg", ["sum"])))
            runs.append(f"show_rdict (fst (run QN {name} {A} {a['term']} (mk_store [] [] 0%nat) {c_dict(a['kind'], a['in'])}))")
        src += "Eval vm_compute in [" + ";\n  ".join(runs) + "].\n"
    return src


def reference(prog, a):
    """harness' own reference result: (type name, {key: (shape, [Fraction])})"""
    w = a["what"]
    if w == "init":
        return "Gradients", {v: (tuple(prog.shapes[v]), [Fraction(1)] * numel(prog.shapes[v])) for v in set(a["args"])}
    if w == "diag":
        ks = a["args"]
        flat = [x for k in ks for x in a["in"][k][1]]
        m = len(flat)
        res, off = {}, 0
        for k in ks:
            nk = numel(prog.shapes[k])
            data = []
            for r in range(m):
                data.extend([Fraction(flat[r]) if (off + c) == r else Fraction(0) for c in range(nk)])
            res[k] = ((m,) + tuple(prog.shapes[k]), data)
            off += nk
        return "Jacobians", res
    if w == "stack":
        subs, ks = a["args"]
        res = {}
        for k in {x for s in subs for x in s}:
            nk = numel(prog.shapes[k])
            data = []
            for s in subs:
                data.extend([Fraction(x) for x in a["in"][k][1]] if k in s else [Fraction(0)] * nk)
            res[k] = ((len(subs),) + tuple(prog.shapes[k]), data)
        return "Jacobians", res
    if w == "aggregate":
        ak = a["args"]
        b = a["in"][ak[0]][0][0]
        J = []
        for r in range(b):
            row = []
            for k in ak:
                nk = numel(prog.shapes[k])
                row.extend(a["in"][k][1][r * nk:(r + 1) * nk])
            J.append(row)
        v = ajlib.exact_agg(tuple(a["agg"]), J)
        res, off = {}, 0
        for k in ak:
            nk = numel(prog.shapes[k])
            res[k] = (tuple(prog.shapes[k]), v[off:off + nk])
            off += nk
        return "Gradients", res
    if w == "grad":
        outs, ins = a["args"]
        cots = [a["in"][o][1] for o in outs]
        return "Gradients", {i: (tuple(prog.shapes[i]), ajlib.exact_vjp(prog, outs, cots, i)) for i in ins}
    if w == "stack_grad":
        so, orders = a["args"]
        res = {}
        for i in orders[0]:
            data = []
            for o in so:
                ones = [1] * numel(prog.shapes[o])
                data.extend(ajlib.exact_vjp(prog, [o], [ones], i))
            res[i] = ((len(so),) + tuple(prog.shapes[i]), data)
        return "Jacobians", res
    if w == "jac":
        outs, ins, _ = a["args"]
        b = a["in"][outs[0]][0][0]
        res = {}
        for i in ins:
            data = []
            for r in range(b):
                cots = [a["in"][o][1][r * numel(prog.shapes[o]):(r + 1) * numel(prog.shapes[o])] for o in outs]
                data.extend(ajlib.exact_vjp(prog, outs, cots, i))
            res[i] = ((b,) + tuple(prog.shapes[i]), data)
        return "Jacobians", res
    raise KeyError(w)


def apply_real(prog, ts, a, cache):
    w = a["what"]
    if w == "init":
        return Init([ts[v] for v in a["args"]])(EmptyTensorDict())
    if w == "diag":
        return Diagonalize([ts[k] for k in a["args"]])(t_dict(Gradients, a["in"], ts, a["order"]))
    if w == "stack":
        subs, ks = a["args"]
        tr = Stack([Select([ts[k] for k in s], [ts[k] for k in ks]) for s in subs])
        return tr(t_dict(Gradients, a["in"], ts))
    if w == "aggregate":
        agg = Constant(torch.tensor([float(x) for x in a["agg"][1]], dtype=torch.float64))
        return Aggregate(agg, [ts[k] for k in a["args"]])(t_dict(Jacobians, a["in"], ts, a["order"]))
    if w == "stack_grad":
        so, orders = a["args"]
        return Stack([Grad([ts[o]], [ts[i] for i in od], retain_graph=True) << Init([ts[o]])
                      for o, od in zip(so, orders)])(EmptyTensorDict())
    if w == "grad":
        outs, ins = a["args"]
        return Grad([ts[o] for o in outs], [ts[i] for i in ins], retain_graph=True)(t_dict(Gradients, a["in"], ts))
    if w == "jac":
        outs, ins, k = a["args"]
        key = (tuple(outs), tuple(ins), k)
        if key not in cache:        # the SAME instance serves batches of different sizes
            cache[key] = Jac([ts[o] for o in outs], [ts[i] for i in ins], k, retain_graph=True)
        return cache[key](t_dict(Jacobians, a["in"], ts))
    raise KeyError(w)


KIND_NAME = {0: "EmptyTensorDict", 1: "Gradients", 2: "Jacobians", 3: "GradientVectors",
             4: "JacobianMatrices", 5: "TensorDict"}


def judge(chk, case, mvals):
    prog = ajlib.Program.from_json(case["prog"])
    ts = prog.build(torch.float64)
    cache = {}
    for ai, (a, mv) in enumerate(zip(case["apps"], mvals)):
        rep = {"kind": "c15", "case": case, "app": ai}
        chk.count({"id": case["id"], "what": a["what"], "args": str(a["args"])[:80]}, nontrivial=True)
        ref = reference(prog, a)
        try:
            out = apply_real(prog, ts, a, cache)
            got = read_dict(out, ts)
            err = None
        except Exception as e:  # noqa: BLE001
            got, err = None, type(e).__name__
        if err is not None:
            chk.violation(f"C15 {a['what']} raised {err} on a valid application", rep)
            return False
        if got[1] != ref[1] or (got[0] != ref[0] and not (got[0] == "EmptyTensorDict" and not ref[1])):
            bad = next((k for k in ref[1] if got[1].get(k) != ref[1][k]), None)
            chk.violation(
                f"C15 {a['what']}{a['args']}: output for key {bad} is {got[1].get(bad)}, the specified "
                f"linear map gives {ref[1].get(bad)} (type {got[0]} vs {ref[0]})", rep)
            return False
        if a["what"] in ("grad", "jac"):
            # linearity in the cotangents at the end of the dtype's range: the same application with every
            # cotangent multiplied by 2^-600 (exact in float64, far below the point where a 2-norm of the
            # cotangents underflows) must return exactly 2^-600 times the result
            sc = Fraction(1, 2 ** 600)
            a2 = dict(a, **{"in": {k: (v[0], [x * sc for x in v[1]]) for k, v in a["in"].items()}})
            try:
                got2 = read_dict(apply_real(prog, ts, a2, cache), ts)[1]
                err = None
            except Exception as e:  # noqa: BLE001
                got2, err = None, type(e).__name__
            exp2 = {k: (v[0], [x * sc for x in v[1]]) for k, v in ref[1].items()}
            if err is not None or got2 != exp2:
                bad = None if got2 is None else next((k for k in exp2 if got2.get(k) != exp2[k]), None)
                chk.violation(
                    f"C15 {a['what']}{a['args']} is not linear in the cotangents: with every cotangent scaled by "
                    f"2^-600 " + (f"it raised {err}" if err else f"the output for key {bad} is "
                    f"{[float(x) for x in got2[bad][1]][:6]} instead of 2^-600 times {[str(x) for x in ref[1][bad][1]][:6]}"),
                    dict(rep, scaled=True))
                return False
        if a["what"] == "jac" and not mixed_inputs_probe(chk, prog, a, ref, rep):
            return False
        mcode, (mkind, mitems) = mv
        mi = {k: ajlib.parse_tens(tp) for (k, tp) in mitems}
        chk.cov["traces_validated_against_impl"] += 1
        if mcode != 0 or mi != ref[1] or (KIND_NAME[mkind] != ref[0] and ref[1]):
            chk.violation(f"correspondence: Coq model of {a['what']} differs from the reference "
                          f"(code {mcode}); theorems of props/C15.v no longer describe the code",
                          dict(rep, model=str(mi)[:800]), no_input=True)
            return False
    return True


def mixed_inputs_probe(chk, prog, a, ref, rep):
    """Jac with inputs of DIFFERENT float dtypes, the narrower one listed first: a float32 leaf that the float64
    computation upcasts at once, next to float64 inputs; cotangents multiplied by 2^24 + 1 (an integer float32
    cannot hold).  The float64 inputs receive their rows at float64 accuracy (the dtype of the result is not
    fixed by the property: the code concatenates all inputs' gradients, which promotes to the widest)."""
    outs, ins, k = a["args"]
    leaves = [i for i in ins if prog.is_leaf[i] and prog.req[i]]
    if len(ins) < 2 or not leaves:
        return True
    first = leaves[0]
    order = [first] + [i for i in ins if i != first]
    ts = prog.build(torch.float64, narrow={first})
    c = 2 ** 24 + 1
    a2 = dict(a, **{"in": {kk: (v[0], [x * c for x in v[1]]) for kk, v in a["in"].items()}})
    try:
        out = Jac([ts[o] for o in outs], [ts[i] for i in order], k, retain_graph=True)(t_dict(Jacobians, a2["in"], ts))
        err = None
    except Exception as e:  # noqa: BLE001
        out, err = None, type(e).__name__
    chk.note("mixed_dtype_inputs_probe")
    bad = None
    if err is not None:
        bad = f"raised {err}"
    else:
        for i in order:
            v = out[ts[i]]
            exp = [float(x) * c for x in ref[1][i][1]]
            got = [float(x) for x in v.reshape(-1).tolist()]
            tol = 1e-6 if i == first else 1e-13
            if len(got) != len(exp) or any(abs(g - e) > tol * max(1.0, abs(e)) for g, e in zip(got, exp)):
                bad = (f"output for the {ts[i].dtype} input {i} is {got[:6]} instead of {exp[:6]} "
                       f"(relative tolerance {tol})")
            if bad:
                break
    if bad:
        chk.violation(f"C15 jac{a['args']} with a float32 input listed before float64 ones (cotangents x (2^24+1)): "
                      + bad, dict(rep, mixed=True))
        return False
    return True


def oracle_chain(chk, rng):
    """chaining through a cut == end to end; Jac == stacked Grad; linearity (implementation only)"""
    prog, feats, losses, tasks, shared = ajlib.gen_mtl(rng, nested=False)
    if not shared:
        return
    ts = prog.build(torch.float64)
    t = len(losses)
    b = rng.randint(1, 4)
    C = {l: ((b,), rand_vals(rng, b)) for l in losses}
    jl = t_dict(Jacobians, C, ts)
    k = rng.choice([None, 1, 2])
    inner = Jac([ts[l] for l in losses], [ts[f] for f in feats], k, retain_graph=True)
    outer = Jac([ts[f] for f in feats], [ts[p] for p in shared], k, retain_graph=True)
    direct = Jac([ts[l] for l in losses], [ts[p] for p in shared], k, retain_graph=True)
    chained = (outer << inner)(jl)
    e2e = direct(jl)
    chk.count({"what": "chain", "k": k, "b": b}, nontrivial=True)
    for p in shared:
        if not torch.equal(chained[ts[p]], e2e[ts[p]]):
            chk.violation("C15 chaining Jac through the features differs from differentiating end to end",
                          {"kind": "c15-chain", "prog": prog.to_json(), "features": feats, "losses": losses,
                           "shared": shared, "C": {str(k_): v for k_, v in C.items()}, "k": k})
            return
    # Jac == Grad row by row, and linearity
    g = Grad([ts[l] for l in losses], [ts[p] for p in shared], retain_graph=True)
    for r in range(b):
        row = Gradients({ts[l]: torch.tensor(float(C[l][1][r]), dtype=torch.float64) for l in losses})
        gr = g(row)
        for p in shared:
            if not torch.equal(gr[ts[p]], e2e[ts[p]][r]):
                chk.violation("C15 Jac differs from stacking Grad row by row",
                              {"kind": "c15-chain", "prog": prog.to_json(), "row": r})
                return


def run(chk):
    rng = random.Random(15000 + chk.seed)
    n = N_QUICK if chk.tier == "quick" else N_THOROUGH
    cases = [gen_case(rng, i) for i in range(n)]
    chk.cov["rule"] = ("random programs; per program: Init on a random value set, Diagonalize with an "
                       "input mapping inserted in a different order, Stack of Selects (absent keys), "
                       "Aggregate(Constant) with the mapping inserted in reverse order, Grad with random "
                       "integer cotangents, Jac on two batches of different sizes through the SAME "
                       "instance for chunk sizes None,1,2,b+1; exact comparison implementation / reference / "
                       "Coq model; plus chaining through a cut, Jac == stacked Grad")
    B = 10
    files = [(f"c15_{b}", model_source(cases[b:b + B])) for b in range(0, len(cases), B)]
    outs = common.coq_run_files(files, "c15")
    for b, out in zip(range(0, len(cases), B), outs):
        vals = common.parse_coq_values(out)
        for case, v in zip(cases[b:b + B], vals):
            judge(chk, case, v)
            if len(chk.violations) >= 3:
                break
    for _ in range(40 if chk.tier == "quick" else 400):
        if chk.violations:
            break
        oracle_chain(chk, rng)
    chk.assumptions += ["torch.autograd.grad = VJP w.r.t. the total derivative (validated against the "
                        "harness' forward-mode Jacobian)", "vmap(get_vjp) = row-wise get_vjp"]


def replay(chk, obj):
    if obj.get("kind") == "c15-chain":
        oracle_chain(chk, random.Random(0))
        return not chk.violations
    case = obj["case"]
    out = common.coq_run_files([("c15r", model_source([case]))], "c15r")[0]
    vals = common.parse_coq_values(out)
    return judge(chk, case, vals[0])
