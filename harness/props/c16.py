"""C16 — Byzantine-robust aggregators ignore a bounded number of arbitrary rows.
Obligations: props/C16.v.  Correspondence (fault sequences): honest matrices and every way of
corrupting up to b (resp. f) rows with huge / garbage / copied values, all admissible b and (f,k)
for m <= 7.  Direct oracle: TrimmedMean per column within [min,max] of the untouched rows and equal
to the exact trimmed mean; Krum = plain average of k distinct rows forming a VALID selection for
float64-recomputed scores (ties at the boundary are structural for m-f-2 in {0,1})."""
import itertools
import math
import random as pyrandom
from fractions import Fraction as F

import agglib as A
import aggrun as R

TOLV = {"f64": 1e-9, "f32": 1e-4}


def corrupt(rng, J, rows):
    m, n = len(J), len(J[0])
    sc = max(A.maxabs(J), F(1, 2 ** 10))
    Jc = [list(r) for r in J]
    for i in rows:
        mode = rng.choice(["huge", "huge_neg", "garbage", "copy", "mixed"])
        for j in range(n):
            if mode == "huge":
                Jc[i][j] = sc * F(2) ** rng.randint(20, 40)
            elif mode == "huge_neg":
                Jc[i][j] = -sc * F(2) ** rng.randint(20, 40)
            elif mode == "garbage":
                Jc[i][j] = F(rng.randint(-2 ** 20, 2 ** 20), 2 ** rng.randint(0, 6)) * sc
            elif mode == "copy":
                Jc[i][j] = J[(i + 1) % m][j]
            else:
                Jc[i][j] = sc * F(2) ** rng.randint(0, 40) * rng.choice([-1, 1])
    return Jc


def tm_exact(J, b):
    m, n = len(J), len(J[0])
    out = []
    for j in range(n):
        col = sorted(J[i][j] for i in range(m))
        kept = col[b:m - b]
        out.append(sum(kept) / len(kept))
    return out


def oracle_tm(chk, c, dt, found):
    J, b, honest_rows = c["J"], c["params"]["b"], c["honest_rows"]
    m, n = len(J), len(J[0])
    o = A.impl_call("TrimmedMean", c["params"], J, dt)
    bad = None
    if m < 2 * b + 1:
        if not (o[0] == "err" and o[1] == "ValueError"):
            bad = f"TrimmedMean({b}) accepted {m} rows (< 2b+1) instead of ValueError: {o[:2]}"
    elif o[0] != "ok":
        bad = f"TrimmedMean({b}) raised {o[1]}"
    else:
        ex = tm_exact(J, b)
        for j in range(n):
            hon = [J[i][j] for i in honest_rows]
            lo, hi = float(min(hon)), float(max(hon))
            sc = max(abs(lo), abs(hi), 1e-300)
            if not (lo - TOLV[dt] * sc <= o[1][j] <= hi + TOLV[dt] * sc):
                bad = (f"TrimmedMean({b}) coordinate {j} = {o[1][j]:.6e} left the range "
                       f"[{lo:.6e}, {hi:.6e}] of the untouched rows")
                break
            if abs(o[1][j] - float(ex[j])) > TOLV[dt] * max(sc, abs(float(ex[j]))) * 10:
                bad = (f"TrimmedMean({b}) coordinate {j} = {o[1][j]:.9e} is not the mean of the "
                       f"entries left after removing the b largest and smallest ({float(ex[j]):.9e})")
                break
    if bad:
        rep = R.case_json(c, dt)
        rep.update({"kind": "oracle", "honest_rows": honest_rows, "observed": o[:2]})
        chk.violation(bad, rep)
        found.add(("TrimmedMean", A.jsonable(J).__repr__(), dt))


def krum_scores(J, f):
    m = len(J)
    G = A.gram(J)
    sc = []
    for i in range(m):
        d = sorted(math.sqrt(max(0.0, float(G[i][i] + G[j][j] - 2 * G[i][j]))) for j in range(m) if j != i)
        sc.append(sum(d[:m - f - 2]))
    return sc


def oracle_krum(chk, c, dt, found):
    J, p = c["J"], c["params"]
    f, k = p["f"], p["k"]
    m, n = len(J), len(J[0])
    w = A.impl_call("Krum", p, J, dt, weighting=True)
    o = A.impl_call("Krum", p, J, dt)
    bad = None
    if m < f + 3 or m < k:
        if not (o[0] == "err" and o[1] == "ValueError"):
            bad = f"Krum({f},{k}) accepted {m} rows instead of ValueError: {o[:2]}"
    elif w[0] != "ok" or o[0] != "ok":
        bad = f"Krum({f},{k}) raised {w[1] if w[0] != 'ok' else o[1]}"
    else:
        sel = [i for i, x in enumerate(w[1]) if abs(x) > 1e-12]
        if len(sel) != k or any(abs(w[1][i] - 1.0 / k) > 1e-6 for i in sel):
            bad = f"Krum({f},{k}) weights {w[1]} are not 1/k on exactly k distinct rows"
        else:
            sc = krum_scores(J, f)
            mx = max(sc) if sc else 0.0
            worst_sel = max(sc[i] for i in sel)
            best_unsel = min([sc[j] for j in range(m) if j not in sel], default=float("inf"))
            # tolerance relative to the scores being compared (NOT to the largest score: a corrupted
            # row's score is up to 1e12 times the honest ones and would mask every honest mis-ordering)
            if worst_sel > best_unsel + TOLV[dt] * max(min(worst_sel, best_unsel if best_unsel != float("inf") else worst_sel), 1e-300):
                bad = (f"Krum({f},{k}) selected rows {sel} but a selected score {worst_sel:.9e} "
                       f"exceeds an unselected one {best_unsel:.9e} (sum of distances to the "
                       f"m-f-2 nearest other rows)")
            else:
                exp = [float(sum(J[i][j] for i in sel) / k) for j in range(n)]
                s_ = max(float(A.maxabs(J)), 1e-300)
                if max(abs(a - b) for a, b in zip(o[1], exp)) > TOLV[dt] * s_ * 10:
                    bad = f"Krum({f},{k}) output is not the plain average of the selected rows"
    if bad:
        rep = R.case_json(c, dt)
        rep.update({"kind": "oracle", "observed_weights": w[:2], "observed": o[:2]})
        chk.violation(bad, rep)
        found.add(("Krum", A.jsonable(J).__repr__(), dt))


def krum_gap_ok(J, f, k):
    sc = sorted(krum_scores(J, f))
    if k >= len(sc):
        return True
    return (sc[k] - sc[k - 1]) > 1e-6 * max(sc[-1], 1e-300)


def fine_f64_matrix(rng):
    """(J, f, k) with entries 2^30 + small integers and a clear gap between the k-th and the (k+1)-th Krum score
    (None when the draw has a near tie)"""
    m, n = rng.randint(5, 8), rng.randint(3, 5)
    base = F(2 ** 30)
    J = [[base + rng.randint(-3, 3) for _ in range(n)] for _ in range(m)]
    f = rng.randint(1, m - 3)
    for i in rng.sample(range(m), f):
        J[i] = [x + rng.choice([-1, 1]) * rng.randint(6, 9) for x in J[i]]
    k = rng.randint(1, 2)
    sc = sorted(krum_scores(J, f))
    if sc[k] - sc[k - 1] < 1e-3 * sc[-1]:
        return None, None, None
    return J, f, k


def run(chk):
    rng = pyrandom.Random(chk.seed * 32452843 + 16)
    q = chk.tier == "quick"
    found = set()
    cases = []
    # TrimmedMean: all admissible b for the generated m, corrupted subsets
    for it in range(45 if q else 700):
        # the first rounds are not left to chance: constant columns / identical rows and three-letter alphabets
        # (every order statistic tied), then the random categories
        forced = ["const_col", "few_values", "const_col", "few_values", "const_col", "few_values"][it] if it < 6 else None
        J, cat = A.gen_matrix(rng, cat=forced or rng.choice(["generic", "dup_rows", "bad_scale", "generic", "tall",
                                                              "const_col", "few_values"]),
                              mmax=7, nmax=5)
        while forced and len(J) < (3 if it % 2 == 0 else 5):
            # the forced cases keep their ties: enough rows for b = 1 resp. b = 2 without appended rows
            J, cat = A.gen_matrix(rng, cat=forced, mmax=7, nmax=5)
        if len(J) < 3 and rng.random() < 0.8:
            J = J + [[x + 1 for x in J[0]], [x - 2 for x in J[0]], [2 * x for x in J[0]]]
        m = len(J)
        bmax = (m - 1) // 2
        b = rng.randint(1, bmax) if bmax >= 1 and rng.random() < 0.8 else rng.randint(0, bmax)
        if forced and bmax >= 1:
            b = [1, bmax][it % 2]
        ncor = b if rng.random() < 0.7 else rng.randint(0, b)
        if forced and it < 4:
            ncor = 0                    # the uncorrupted tied matrix itself
        rows = sorted(rng.sample(range(m), ncor))
        Jc = corrupt(rng, J, rows)
        cases.append({"name": "TrimmedMean", "params": {"b": b}, "J": Jc, "cat": cat + f"+corrupt{ncor}",
                      "honest_rows": [i for i in range(m) if i not in rows]})
    # too few rows
    for _ in range(6 if q else 40):
        J, cat = A.gen_matrix(rng, mmax=4, nmax=3)
        b = (len(J) + 1) // 2 + rng.randint(0, 1)
        cases.append({"name": "TrimmedMean", "params": {"b": b}, "J": J, "cat": "too_few_rows",
                      "honest_rows": list(range(len(J)))})
    # Krum: all admissible (f,k), corrupted subsets
    for _ in range(45 if q else 700):
        while True:
            J, cat = A.gen_matrix(rng, cat=rng.choice(["generic", "generic", "dup_rows", "bad_scale"]),
                                  mmax=7, nmax=5)
            if len(J) >= 3:
                break
        m = len(J)
        f = rng.randint(1, m - 3) if m >= 4 and rng.random() < 0.8 else rng.randint(0, m - 3)
        k = rng.randint(1, m)
        ncor = f if rng.random() < 0.7 else rng.randint(0, f)
        rows = sorted(rng.sample(range(m), ncor))
        Jc = corrupt(rng, J, rows)
        cases.append({"name": "Krum", "params": {"f": f, "k": k}, "J": Jc, "cat": cat + f"+corrupt{ncor}",
                      "honest_rows": [i for i in range(m) if i not in rows]})
    for _ in range(6 if q else 40):
        J, cat = A.gen_matrix(rng, mmax=4, nmax=3)
        m = len(J)
        f, k = (m - 2 + rng.randint(0, 1), 1) if rng.random() < 0.5 else (0, m + 1)
        cases.append({"name": "Krum", "params": {"f": max(f, 0), "k": k}, "J": J, "cat": "too_few_rows",
                      "honest_rows": list(range(m))})
    # the rejection boundary, not left to chance: exactly f + 2 rows (one fewer than the minimum), f + 1 rows,
    # and n_selected = m + 1, for every m in 2..4
    for m in (2, 3, 4):
        J = [[F(rng.randint(-4, 4)) for _ in range(3)] for _ in range(m)]
        for f, k in ((m - 2, 1), (m - 2, min(2, m)), (m - 1, 1), (0, m + 1)):
            cases.append({"name": "Krum", "params": {"f": f, "k": k}, "J": J, "cat": "too_few_rows",
                          "honest_rows": list(range(m))})
    for m in (1, 2, 3, 4):
        J = [[F(rng.randint(-4, 4)) for _ in range(3)] for _ in range(m)]
        cases.append({"name": "TrimmedMean", "params": {"b": m // 2 if m % 2 == 0 else (m + 1) // 2}, "J": J,
                      "cat": "too_few_rows", "honest_rows": list(range(m))})
    # correspondence with the model (identity of Krum's selection only away from score ties)
    corr = [c for c in cases if A.exactly_representable(c["J"], "f32") and
            (c["name"] != "Krum" or c["cat"] == "too_few_rows" or
             krum_gap_ok(c["J"], c["params"]["f"], c["params"]["k"]))]
    chk.notes["skipped_near_tie_or_not_f32_exact"] = len(cases) - len(corr)
    kept, dis = R.run_corr(chk, corr, "c16")
    for c in cases:
        chk.count(R.case_json(c), nontrivial="corrupt0" not in c["cat"] and c["cat"] != "too_few_rows")
        chk.note("cat_" + c["cat"].split("+")[-1])
        for dt in (("f64", "f32") if A.exactly_representable(c["J"], "f32") else ("f64",)):
            (oracle_tm if c["name"] == "TrimmedMean" else oracle_krum)(chk, c, dt, found)
    # Krum with many rows sharing a large common component (float32), direct oracle only
    for _ in range(4 if q else 30):
        m, n = rng.randint(26, 32), rng.randint(8, 16)
        base = F(rng.choice([2 ** 14, 2 ** 15, 2 ** 20]))
        J = [[base + rng.randint(-2, 2) for _ in range(n)] for _ in range(m)]
        f = rng.randint(1, 4)
        for i in rng.sample(range(m), f):
            J[i] = [x + 6 for x in J[i]]
        c = {"name": "Krum", "params": {"f": f, "k": 1}, "J": J, "cat": "many_rows_common_offset",
             "honest_rows": list(range(m))}
        sc = sorted(krum_scores(J, f))
        if sc[1] - sc[0] < 1e-3 * sc[-1]:
            chk.note("skipped_near_tie_many_rows")
            continue
        chk.count(R.case_json(c) | {"J": f"{m}x{n} matrix, entries {base}+[-2,2]"}, nontrivial=True)
        for dt in ("f64", "f32"):
            oracle_krum(chk, c, dt, found)
    # float64 matrices whose rows differ by less than float32 resolution (a common component of 2^30, deviations
    # of a few units): every distance, and with it every score, is exact in float64 and zero in float32
    n_fine = 0
    for _ in range(200):
        if n_fine >= (4 if q else 30):
            break
        J, f, k = fine_f64_matrix(rng)
        if J is None:
            continue
        n_fine += 1
        c = {"name": "Krum", "params": {"f": f, "k": k}, "J": J, "cat": "f64_below_f32_resolution",
             "honest_rows": list(range(len(J)))}
        chk.count(R.case_json(c) | {"J": f"{len(J)}x{len(J[0])} matrix, entries 2^30+[-3,3], {f} rows moved by 6..9"},
                  nontrivial=True)
        oracle_krum(chk, c, "f64", found)
    chk.notes["f64_below_f32_resolution_cases"] = n_fine
    R.report_corr(chk, dis, found)
    chk.cov["rule"] = ("fault sequences: honest integer*2^k matrices (m<=7) with 0..b (resp. 0..f) rows "
                       "replaced by +-2^20..2^40 x honest scale, random garbage, copies of honest rows; "
                       "all admissible b, (f,k); too-few-rows rejections; Krum with 26-32 rows and a "
                       "large common offset; non-trivial = at least one corrupted row")
    chk.assumptions += ["Krum's tie-break among equal scores is not specified: selection validity, "
                        "not identity, is demanded at ties"]


def replay(chk, obj):
    found = set()
    c = {"name": obj["aggregator"], "params": A.unjson(obj["params"]), "J": A.unjson(obj["J"]),
         "cat": obj.get("cat", ""), "honest_rows": obj.get("honest_rows") or list(range(len(obj["J"])))}
    c["params"] = {k: int(v) for k, v in c["params"].items()}
    dt = obj.get("dtype", "f64")
    (oracle_tm if c["name"] == "TrimmedMean" else oracle_krum)(chk, c, dt, found)
    print("impl:", A.impl_call(c["name"], c["params"], c["J"], dt)[:2])
    return not chk.violations
