"""C17 — impartial aggregators treat every objective alike.
Obligations: props/C17.v (IMTL-G's defining equalities from the pinv contract; zero matrices).
Correspondence: AGG-CORR on full-row-rank matrices (m <= n, condition <= 1e4) at scales 2^e.
Direct oracle: IMTL-G weights sum to one and equal projections; ConFIG equal positive cosines
(proportional to the preference vector) and |A| = sum of projections; Aligned-MTL re-balanced rows
(recovered with one-hot preference vectors) mutually orthogonal and as long as sigma_min(J), output
= preference-weighted combination; zero matrices of all shapes -> zero vector."""
import math
import random as pyrandom
from fractions import Fraction as F

import numpy as np
import torch

import agglib as A
import aggrun as R

TOL = {"f64": 1e-7, "f32": 3e-3}


def gen_fullrank(rng, mmax=4, nmax=6, structured=False, e=None):
    for _ in range(500):
        m = rng.randint(3 if structured else 1, mmax)
        n = rng.randint(m, nmax)
        if structured and m >= 3:
            a = rng.choice([8, 16, 32])
            J = [[0] * n for _ in range(m)]
            for i in range(m - 1):
                J[i][i] = a
            J[m - 1] = [1] * n                    # a short row lying between the long ones
            if rng.random() < 0.5:
                J[0], J[m - 1] = J[m - 1], J[0]
        else:
            J = [[rng.randint(-4, 4) for _ in range(n)] for _ in range(m)]
        Jf = np.array(J, dtype=np.float64)
        sv = np.linalg.svd(Jf, compute_uv=False)
        if len(sv) < m or sv[-1] <= 0 or sv[0] / sv[-1] > 1e3:
            continue
        if e is None:
            e = rng.choice([0, 0, -12, 9, -30, 25])
        return [[F(x) * F(2) ** e for x in r] for r in J], e
    raise RuntimeError("no full-rank matrix")


def viol(chk, found, c, dt, what, extra):
    rep = R.case_json(c, dt)
    rep.update({"kind": "oracle", "pad": c.get("pad", 0)})
    rep.update(extra)
    chk.violation(what, rep)
    found.add((c["name"], A.jsonable(c["J"]).__repr__(), dt))


def npJ(J):
    return np.array([[float(x) for x in r] for r in J], dtype=np.float64)


def padded(J, dt, pad):
    """J followed by `pad` all-zero columns (parameters that influence nothing), as a tensor"""
    if not pad:
        return None
    t = torch.zeros(len(J), len(J[0]) + pad, dtype=A.DT[dt])
    t[:, :len(J[0])] = A.to_tensor(J, dt)
    return t


def head(r, n):
    return r if r[0] != "ok" or len(r[1]) <= n else ("ok", r[1][:n]) + tuple(r[2:])


def oracle_imtlg(chk, c, dt, found, tensor_pad=0):
    J = c["J"]
    w = A.impl_call("IMTLG", {}, J, dt, weighting=True, tensor=padded(J, dt, tensor_pad))
    o = head(A.impl_call("IMTLG", {}, J, dt, tensor=padded(J, dt, tensor_pad)), len(J[0]))
    if w[0] != "ok" or o[0] != "ok":
        return viol(chk, found, c, dt, f"IMTLG raised {w[1]}", {})
    Jf = npJ(J)
    nr = np.linalg.norm(Jf, axis=1)
    proj = (Jf @ np.array(o[1])) / nr
    t = TOL[dt] * 30
    if abs(sum(w[1]) - 1) > t:
        return viol(chk, found, c, dt, f"IMTLG weights sum to {sum(w[1]):.9f}, not 1", {"weights": w[1]})
    spread = float(np.max(proj) - np.min(proj))
    if spread > t * max(float(np.max(np.abs(proj))), 1e-300):
        return viol(chk, found, c, dt, f"IMTLG: projections onto the row directions differ "
                    f"({proj.tolist()})", {"weights": w[1]})
    if sum(1 for x in w[1] if x < 0):
        chk.note("imtlg_cases_with_negative_weight")


def oracle_config(chk, c, dt, found, tensor_pad=0):
    J, p = c["J"], c["params"]
    o = head(A.impl_call("ConFIG", p, J, dt, tensor=padded(J, dt, tensor_pad)), len(J[0]))
    if o[0] != "ok":
        return viol(chk, found, c, dt, f"ConFIG raised {o[1]}", {})
    Jf = npJ(J)
    a = np.array(o[1])
    na = np.linalg.norm(a)
    pref = np.array([float(x) for x in (p.get("pref") or [1] * len(J))])
    if not np.all(np.isfinite(a)) or na == 0:
        return viol(chk, found, c, dt, f"ConFIG returned {o[1][:6]} on a matrix with linearly independent "
                    f"rows (no direction, no cosines)", {})
    cos = (Jf @ a) / (np.linalg.norm(Jf, axis=1) * na)
    ratio = cos / pref
    t = TOL[dt] * 30
    if np.min(cos) <= 0:
        return viol(chk, found, c, dt, f"ConFIG: a cosine with a row is not positive ({cos.tolist()})", {})
    if float(np.max(ratio) - np.min(ratio)) > t * float(np.max(ratio)):
        return viol(chk, found, c, dt, f"ConFIG: cosines {cos.tolist()} are not proportional to the "
                    f"preference vector {pref.tolist()}", {})
    u = a / na
    proj_sum = float(np.sum(Jf @ u))
    if abs(na - proj_sum) > t * max(na, 1e-300):
        viol(chk, found, c, dt, f"ConFIG: |A| = {na:.9e} is not the sum of its projections on the "
             f"rows ({proj_sum:.9e})", {})


def oracle_aligned(chk, c, dt, found, tensor_pad=0):
    J, p = c["J"], c["params"]
    m, n = len(J), len(J[0])
    Jf = npJ(J)
    smin = float(np.linalg.svd(Jf, compute_uv=False)[-1])

    def call(pref):
        t = None
        if tensor_pad:
            t = torch.zeros(m, n + tensor_pad, dtype=A.DT[dt])
            t[:, :n] = A.to_tensor(J, dt)
        r = A.impl_call("AlignedMTL", {"pref": pref}, J, dt, tensor=t)
        return r if r[0] != "ok" else ("ok", r[1][:n], r[1][n:])

    rows = []
    for k in range(m):
        e = [F(1 if i == k else 0) for i in range(m)]
        r = call(e)
        if r[0] != "ok":
            return viol(chk, found, c, dt, f"AlignedMTL raised {r[1]}", {})
        rows.append(r[1])
    Gh = np.array(rows)
    gram = Gh @ Gh.T
    t = TOL[dt] * 30
    sc = smin * smin
    pad = f" (with {tensor_pad} all-zero columns appended)" if tensor_pad else ""
    off = float(np.max(np.abs(gram - np.diag(np.diag(gram)))))
    if off > t * sc:
        return viol(chk, found, c, dt, f"AlignedMTL: re-balanced rows are not mutually orthogonal "
                    f"(max off-diagonal {off:.3e}, sigma_min^2 {sc:.3e}){pad}", {"pad": tensor_pad})
    if float(np.max(np.abs(np.sqrt(np.diag(gram)) - smin))) > t * smin:
        return viol(chk, found, c, dt, f"AlignedMTL: re-balanced rows have lengths "
                    f"{np.sqrt(np.diag(gram)).tolist()}, not sigma_min(J) = {smin:.6e}{pad}", {"pad": tensor_pad})
    pref = p.get("pref") or [F(1, m)] * m
    r = call(p.get("pref"))
    exp = (np.array([float(x) for x in pref]) @ Gh)
    if r[0] != "ok" or float(np.max(np.abs(np.array(r[1]) - exp))) > t * max(smin, 1e-300) * m:
        viol(chk, found, c, dt, f"AlignedMTL: output is not the preference-weighted combination of "
             f"the re-balanced rows{pad}", {"pad": tensor_pad})


def zero_checks(chk, found):
    for name in ("IMTLG", "ConFIG", "AlignedMTL"):
        for (m, n) in [(1, 1), (1, 4), (3, 1), (2, 3), (4, 4), (5, 3), (9, 12)]:
            for dt in ("f64", "f32"):
                J = [[F(0)] * n for _ in range(m)]
                o = A.impl_call(name, {"pref": None}, J, dt)
                chk.cov["evaluations"] += 1
                if o[0] != "ok" or any(x != 0.0 for x in o[1]) or len(o[1]) != n:
                    c = {"name": name, "params": {"pref": None}, "J": J, "cat": "zero"}
                    viol(chk, found, c, dt, f"{name} on an all-zero {m}x{n} matrix returned {o[:2]}", {})
    # with a preference vector: the zero matrix (and a matrix with one zero row) first, then a full-row-rank
    # matrix on the SAME instance -- the configured vector must come back untouched and the second answer be right
    for name, orc in (("ConFIG", oracle_config), ("AlignedMTL", oracle_aligned)):
        for dt in ("f64", "f32"):
            pref = [F(1), F(2), F(3)]
            Jz = [[F(0)] * 4 for _ in range(3)]
            o = A.impl_call(name, {"pref": pref}, Jz, dt)
            if o[0] != "ok" or any(x != 0.0 for x in o[1]):
                c = {"name": name, "params": {"pref": pref}, "J": Jz, "cat": "zero"}
                viol(chk, found, c, dt, f"{name}(pref) on an all-zero 3x4 matrix returned {o[:2]}", {})
            J1 = [[F(2), F(0), F(1), F(0)], [F(0), F(0), F(0), F(0)], [F(1), F(1), F(0), F(3)]]
            A.impl_call(name, {"pref": pref}, J1, dt)        # one zero row: any answer, but no side effect
            Jr = [[F(3), F(-1), F(2), F(0)], [F(1), F(4), F(-2), F(1)], [F(-2), F(1), F(5), F(2)]]
            orc(chk, {"name": name, "params": {"pref": pref}, "J": Jr, "cat": "after_zero_matrix"}, dt, found)
            chk.cov["evaluations"] += 3
    chk.count({"zero_matrices": "7 shapes x 3 aggregators x 2 dtypes"}, nontrivial=True)


def run(chk):
    rng = pyrandom.Random(chk.seed * 141650939 + 17)
    q = chk.tier == "quick"
    found = set()
    cases = []
    for i in range(90 if q else 1500):
        name = ["IMTLG", "ConFIG", "AlignedMTL"][i % 3]
        # every fourth case (of each aggregator in turn) sits at the small scale 2^-30 AND is followed by its
        # sibling: entries of J J^T around 1e-17, where anything compared with an absolute tolerance is "equal"
        J, e = gen_fullrank(rng, structured=(name == "IMTLG" and (i % 6 == 0 or rng.random() < 0.3)), e=(-30 if i % 4 == 0 else None))
        p = {}
        if name in ("ConFIG", "AlignedMTL"):
            p = {"pref": A.gen_pref(rng, len(J), positive=True)}
        cases.append({"name": name, "params": p, "J": J, "cat": f"fullrank*2^{e}"})
        sib = R.sibling(cases[-1])
        if sib is not None and i % 2 == 0:
            cases.append(sib)
    corr = [c for c in cases if A.exactly_representable(c["J"], "f32") and
            R.well_conditioned(c["J"], c["name"], c["params"])]
    kept, dis = R.run_corr(chk, corr, "c17")
    for c in cases:
        chk.count(R.case_json(c), nontrivial=len(c["J"]) >= 2)
        for dt in R.dtypes_for(c):
            {"IMTLG": oracle_imtlg, "ConFIG": oracle_config, "AlignedMTL": oracle_aligned}[c["name"]](
                chk, c, dt, found)
    # Aligned-MTL on wide matrices: the same rows followed by 2^16 all-zero columns
    for _ in range(2 if q else 10):
        J = [[F(20), F(0), F(0), F(1), F(0)], [F(0), F(5), F(0), F(0), F(1)], [F(0), F(0), F(1), F(1), F(1)]]
        c = {"name": "AlignedMTL", "params": {"pref": None}, "J": J, "cat": "wide_zero_padded"}
        for dt in ("f64", "f32"):
            oracle_aligned(chk, c, dt, found, tensor_pad=2 ** 16)
        chk.count(R.case_json(c), nontrivial=True)
        break
    # IMTL-G and ConFIG on model-sized Jacobians (float32): equal projections / proportional cosines
    # must not depend on how many parameters influence nothing (defect D6 lived here)
    for J, pref in (([[F(1), F(2), F(0)], [F(0), F(1), F(3)]], None),
                    ([[F(64), F(64), F(1)], [F(64), F(65), F(0)]], [F(1), F(3)]),
                    ([[F(3), F(-1), F(2)], [F(1), F(4), F(-2)], [F(-2), F(1), F(5)]], [F(1), F(2), F(4)])):
        for z in (2 ** 17, 2 ** 23 + 2 ** 20):
            cI = {"name": "IMTLG", "params": {}, "J": J, "cat": "wide_zero_padded", "pad": z}
            cC = {"name": "ConFIG", "params": {"pref": pref}, "J": J, "cat": "wide_zero_padded", "pad": z}
            oracle_imtlg(chk, cI, "f32", found, tensor_pad=z)
            oracle_config(chk, cC, "f32", found, tensor_pad=z)
            chk.cov["evaluations"] += 3
        if q:
            break
    chk.count({"wide": "IMTLG/ConFIG with 2^17 and 9.4e6 zero columns (float32)"}, nontrivial=True)
    zero_checks(chk, found)
    R.report_corr(chk, dis, found)
    chk.cov["rule"] = ("random integer matrices with full row rank, m<=4<=n<=6, condition <= 1e3, scales "
                       "2^-30..2^25, positive preference vectors; 40% of IMTL-G cases with a short row "
                       "between long ones (negative weights); Aligned-MTL also with 2^16 zero columns "
                       "appended; zero matrices of 7 shapes; non-trivial = at least two rows")
    chk.assumptions += ["pinv / eigh contracts (checked exactly / to tolerance per case by AGG-CORR)"]


def replay(chk, obj):
    found = set()
    c = {"name": obj["aggregator"], "params": A.unjson(obj["params"]), "J": A.unjson(obj["J"]),
         "cat": obj.get("cat", "")}
    dt = obj.get("dtype", "f64")
    pre = R.presibling(c)
    if pre is not None:                          # replay the two-call sequence on the reused instances
        fn = {"IMTLG": oracle_imtlg, "ConFIG": oracle_config, "AlignedMTL": oracle_aligned}[c["name"]]
        for d in ("f64", "f32"):
            fn(chk, pre, d, found)
    if c["cat"] == "zero":
        zero_checks(chk, found)
    elif c["name"] == "AlignedMTL":
        oracle_aligned(chk, c, dt, found, tensor_pad=obj.get("pad", 0))
    else:
        {"IMTLG": oracle_imtlg, "ConFIG": oracle_config}[c["name"]](chk, c, dt, found,
                                                                   tensor_pad=int(obj.get("pad", 0) or 0))
    return not chk.violations
