"""C18 — MGDA, PCGrad, CAGrad, GradDrop and Random satisfy their published definitions.
Obligations: props/C18.v.  Correspondence: MGDA/CAGrad through AGG-CORR; PCGrad through the
model's per-row candidate vectors for ALL projection orders (Minkowski-sum membership, no RNG
replication); GradDrop through the model's two candidates per coordinate.  Direct oracle: the
clauses literally, with exact Python references of the paper-level definitions."""
import itertools
import math
import random as pyrandom
from fractions import Fraction as F

import numpy as np
import torch

import agglib as A
import aggrun as R
import common
from common import cqmat, cqvec
from props.c04 import minnorm_exact
from torchjd.aggregation import GradDrop

TOL = {"f64": 1e-9, "f32": 2e-4}


def fdot(a, b):
    return sum(x * y for x, y in zip(a, b))


# ---------------------------------------------------------------- PCGrad
def pc_row_candidates(J, i):
    """paper-level: g_i projected off every other row it (currently) conflicts with, for every
    order of the other rows; exact, deduplicated"""
    m = len(J)
    others = [j for j in range(m) if j != i]
    cands = {}
    for perm in itertools.permutations(others):
        g = list(J[i])
        for j in perm:
            ip = fdot(g, J[j])
            if ip < 0:
                nj = fdot(J[j], J[j])
                g = [a - ip / nj * b for a, b in zip(g, J[j])]
        cands[tuple(g)] = perm
    return list(cands.keys())


def in_minkowski(y, sets, tol_abs):
    """is y within tol of some sum of one element per set?  DFS with float arrays"""
    arrs = [np.array([[float(x) for x in v] for v in s]) for s in sets]
    y = np.array(y)
    # bounds for pruning: remaining max norms
    def rec(k, acc):
        if k == len(arrs):
            return bool(np.max(np.abs(acc - y)) <= tol_abs)
        for v in arrs[k]:
            if rec(k + 1, acc + v):
                return True
        return False
    return rec(0, np.zeros_like(y))


def model_pc_candidates(cases):
    """Coq: per row i, for every order of the other rows, combine_rows J (pcgrad_inner G i perm e_i)"""
    pre = common.CASES_HEADER + A.MODEL_PRELUDE + """
Fixpoint ins_all (x : nat) (l : list nat) : list (list nat) :=
  match l with
  | [] => [[x]]
  | y :: l' => (x :: l) :: map (cons y) (ins_all x l')
  end.
Fixpoint perms (l : list nat) : list (list nat) :=
  match l with [] => [[]] | x :: l' => flat_map (ins_all x) (perms l') end.
Definition row_cands (J : list (list Q)) (i : nat) :=
  let m := length J in
  let G := gram QN J in
  map (fun perm => vout (combine_rows QN J (pcgrad_inner QN G i perm (onehot QN m i 1%Q))))
      (perms (filter (fun j => negb (Nat.eqb j i)) (seq 0 m))).
Definition all_cands (J : list (list Q)) := map (row_cands J) (seq 0 (length J)).
"""
    files = []
    for k in range(0, len(cases), 8):
        body = pre
        for c in cases[k:k + 8]:
            body += f"Eval vm_compute in (all_cands {cqmat(c['J'])}).\n"
        files.append((f"pc{k}", body))
    out = []
    for o in common.coq_run_files(files, "c18pc"):
        out += common.parse_coq_values(o)
    return out


def check_pcgrad(chk, rng, n_cases, found):
    cases = []
    while len(cases) < n_cases:
        cat = rng.choice(["conflict", "antiparallel", "generic", "stationary", "rank_def", "nonconflict",
                          "dup_rows", "generic", "conflict"])
        J, cat = A.gen_matrix(rng, cat=cat, mmax=4, nmax=4)
        if any(all(x == 0 for x in r) for r in J):
            continue   # a zero row divides by G_jj = 0 (nan): outside "finite matrices" in effect
        cases.append({"name": "PCGrad", "params": {}, "J": J, "cat": cat})
    model = model_pc_candidates(cases)
    seeds = range(12) if chk.tier == "quick" else range(40)
    for c, mc in zip(cases, model):
        J = c["J"]
        m, n = len(J), len(J[0])
        sets = [pc_row_candidates(J, i) for i in range(m)]
        msets = [sorted({tuple(common.frvec(v)) for v in row}) for row in mc]
        G = A.gram(J)
        conflicts = sum(1 for i in range(m) for j in range(i) if G[i][j] < 0)
        chk.count(R.case_json(c), nontrivial=conflicts > 0)
        chk.note("pcgrad_conflicting_pairs", conflicts)
        # model candidates == exact paper-level candidates (sets of vectors)
        if [sorted(s) for s in sets] != msets:
            rep = R.case_json(c)
            rep.update({"kind": "model_vs_reference"})
            chk.violation("correspondence: PCGrad model candidates differ from the paper-level "
                          "reference", rep, no_input=True)
            continue
        sc = float(A.maxabs(J)) * m
        hits = set()
        for dt in ("f64", "f32"):
            for sd in seeds:
                r = A.impl_call("PCGrad", {}, J, dt, seed=sd)
                chk.cov["traces_validated_against_impl"] += 1
                ok = r[0] == "ok" and in_minkowski(r[1], sets, TOL[dt] * sc * 10)
                if r[0] == "ok":
                    hits.add(tuple(round(x / sc, 6) for x in r[1]))
                if not ok:
                    rep = R.case_json(c, dt)
                    rep.update({"kind": "oracle", "seed": sd, "observed": r[:2],
                                "n_candidates_per_row": [len(s) for s in sets]})
                    chk.violation(
                        f"PCGrad output under seed {sd} is not the sum over i of row i projected "
                        f"off its conflicting rows for ANY projection order", rep)
                    found.add(("PCGrad", A.jsonable(J).__repr__(), dt))
                    break
            if conflicts == 0:
                plain = [float(sum(J[i][j] for i in range(m))) for j in range(n)]
                r = A.impl_call("PCGrad", {}, J, dt, seed=0)
                if r[0] != "ok" or max(abs(a - b) for a, b in zip(r[1], plain)) > TOL[dt] * sc * 10:
                    rep = R.case_json(c, dt)
                    rep.update({"kind": "oracle", "observed": r[:2], "expected": plain})
                    chk.violation("PCGrad with no conflicting rows is not the plain sum", rep)
        chk.note("pcgrad_distinct_outputs_seen", len(hits))


# ---------------------------------------------------------------- GradDrop
def gd_candidates(J, leak):
    m, n = len(J), len(J[0])
    leak = leak or [F(0)] * m
    pos, neg = [], []
    for j in range(n):
        col = [J[i][j] for i in range(m)]
        pos.append(sum((l + (1 - l) * (1 if x > 0 else 0)) * x for l, x in zip(leak, col)))
        neg.append(sum((l + (1 - l) * (1 if x < 0 else 0)) * x for l, x in zip(leak, col)))
    return pos, neg


FS = {"identity": None, "square": lambda P: P * P, "sqrt": lambda P: P.sqrt(),
      "smooth": lambda P: P * P * (3 - 2 * P)}


def check_graddrop(chk, rng, n_cases, found):
    cases = []
    for _ in range(n_cases):
        J, cat = A.gen_matrix(rng, mmax=5, nmax=6)
        m = len(J)
        leak = None if rng.random() < 0.3 else [F(rng.randint(0, 8), 8) for _ in range(m)]
        cases.append({"name": "GradDrop", "params": {"leak": leak}, "J": J, "cat": cat})
    # model: two candidates per coordinate (draw below / above every purity)
    exprs = []
    for c in cases:
        n = len(c["J"][0])
        lk = A.popt(c["params"]["leak"])
        for u in (F(-1), F(2)):
            exprs.append(f"(rout (agg_graddrop QN {lk} {cqvec([u]*n)} {cqmat(c['J'])}))")
    mres = A.eval_model(exprs, "c18gd", per_file=40)
    seeds = range(6) if chk.tier == "quick" else range(25)
    for k, c in enumerate(cases):
        J, leak = c["J"], c["params"]["leak"]
        m, n = len(J), len(J[0])
        pos, neg = gd_candidates(J, leak)
        mp, mn = mres[2 * k], mres[2 * k + 1]
        mixed = sum(1 for j in range(n) if any(J[i][j] > 0 for i in range(m)) and
                    any(J[i][j] < 0 for i in range(m)))
        chk.count(R.case_json(c), nontrivial=mixed > 0)
        if mp != ("ok", pos) or mn != ("ok", neg):
            rep = R.case_json(c)
            rep.update({"kind": "model_vs_reference"})
            chk.violation("correspondence: GradDrop model candidates differ from the reference",
                          rep, no_input=True)
            continue
        sc = max(float(A.maxabs(J)) * m, 1e-300)
        for dt in ("f64", "f32"):
            for fname, f in FS.items():
                for sd in seeds:
                    try:
                        agg = GradDrop(leak=A.vec_t(leak, dt)) if f is None else GradDrop(
                            f=f, leak=A.vec_t(leak, dt))
                        torch.manual_seed(sd)
                        out = [float(x) for x in agg(A.to_tensor(J, dt)).to(torch.float64)]
                        err = None
                    except Exception as e:  # noqa: BLE001
                        out, err = None, type(e).__name__
                    chk.cov["traces_validated_against_impl"] += 1
                    bad = err is not None or any(
                        min(abs(out[j] - float(pos[j])), abs(out[j] - float(neg[j]))) > TOL[dt] * sc * 10
                        for j in range(n))
                    if bad:
                        rep = R.case_json(c, dt)
                        rep.update({"kind": "oracle", "seed": sd, "f": fname, "observed": out or err,
                                    "pos_candidate": [float(x) for x in pos],
                                    "neg_candidate": [float(x) for x in neg]})
                        chk.violation(
                            f"GradDrop(f={fname}) seed {sd}: a coordinate is neither the positive-"
                            f"entries nor the negative-entries candidate", rep)
                        found.add(("GradDrop", A.jsonable(J).__repr__(), dt))
                        break
                else:
                    continue
                break


# ---------------------------------------------------------------- Random, MGDA, CAGrad
def check_random(chk, rng, n_cases):
    for _ in range(n_cases):
        J, cat = A.gen_matrix(rng)
        c = {"name": "Random", "params": {}, "J": J, "cat": cat}
        chk.count(R.case_json(c), nontrivial=len(J) > 1)
        for dt in ("f64", "f32"):
            for sd in range(5):
                w = A.impl_call("Random", {}, J, dt, seed=sd, weighting=True)
                o = A.impl_call("Random", {}, J, dt, seed=sd)
                bad = None
                if w[0] != "ok" or o[0] != "ok":
                    bad = f"Random raised {w[1]}"
                elif not all(x > 0 for x in w[1]) or abs(sum(w[1]) - 1) > 1e-5:
                    bad = f"Random weights {w[1]} are not a strictly positive convex combination"
                else:
                    exp = A.vecmat([F(x) for x in w[1]], J, len(J[0]))
                    sc = max(float(A.maxabs(J)) * len(J), 1e-300)
                    if max(abs(a - float(b)) for a, b in zip(o[1], exp)) > TOL[dt] * sc * 10:
                        bad = "Random output is not weights @ J"
                if bad:
                    rep = R.case_json(c, dt)
                    rep.update({"kind": "oracle", "seed": sd, "weights": w[:2]})
                    chk.violation(bad, rep)
                    break


def oracle_mgda(chk, c, dt, found):
    J, p = c["J"], c["params"]
    m, n = len(J), len(J[0])
    w = A.impl_call("MGDA", p, J, dt, weighting=True)
    o = A.impl_call("MGDA", p, J, dt)
    bad = None
    sc = max(float(A.maxabs(J)) * m, 1e-300)
    tol = TOL[dt] * 10
    if w[0] != "ok" or o[0] != "ok":
        bad = f"MGDA raised {w[1] if w[0] != 'ok' else o[1]}"
    elif min(w[1]) < -tol or abs(sum(w[1]) - 1) > max(tol, 1e-5):
        bad = f"MGDA weights {w[1]} are not a convex combination"
    else:
        mean = [float(sum(J[i][j] for i in range(m)) / m) for j in range(n)]
        na, nm = math.sqrt(sum(x * x for x in o[1])), math.sqrt(sum(x * x for x in mean))
        if na > nm + tol * sc:
            bad = f"MGDA output is longer ({na:.6e}) than the mean row ({nm:.6e})"
        elif m == 2 and int(p["max_iters"]) >= 1:
            mn2 = float(minnorm_exact(A.gram(J)))
            if abs(na * na - mn2) > tol * sc * sc:
                bad = (f"MGDA on two rows: |A|^2 = {na*na:.9e} is not the minimum-norm point of "
                       f"the segment ({mn2:.9e})")
    if bad:
        rep = R.case_json(c, dt)
        rep.update({"kind": "oracle", "weights": w[:2], "output": o[:2]})
        chk.violation(bad, rep)
        found.add(("MGDA", A.jsonable(J).__repr__(), dt))


def oracle_cagrad(chk, c, dt, found):
    J, p = c["J"], c["params"]
    m, n = len(J), len(J[0])
    o = A.impl_call("CAGrad", p, J, dt)
    sc = max(float(A.maxabs(J)) * m, 1e-300)
    g0 = [float(sum(J[i][j] for i in range(m)) / m) for j in range(n)]
    cc = float(p["c"])
    bad = None
    if o[0] != "ok":
        bad = f"CAGrad raised {o[1]}"
    else:
        d = math.sqrt(sum((a - b) ** 2 for a, b in zip(o[1], g0)))
        n0 = math.sqrt(sum(x * x for x in g0))
        tol = max(TOL[dt] * 10, 1e-6) * sc
        if all(x == 0 for x in o[1]):
            s = A.sigma_max(J)
            ne = F(p["norm_eps"])
            # the zero vector is allowed exactly "at stationarity", which the code decides to the
            # user's tolerance: |g_w| < norm_eps * |J| for the solver's convex combination g_w, hence
            # min-norm(hull) < norm_eps * |J|.  This holds for c = 0 as for c > 0 (the statement's
            # parenthesis qualifies CAGrad(c) for every c); what is NOT allowed is zero while the
            # hull's min-norm point is clearly above the tolerance
            if s >= ne * (1 + F(1, 1000)) and (cc > 0 or n0 > tol):
                mn2 = minnorm_exact(A.gram(J)) / (s * s)
                if mn2 > ne * ne * F(11, 10):
                    bad = (("CAGrad(c=0) returned zero instead of the mean row " if cc == 0 else
                            "CAGrad returned the zero vector ") + "although the hull is not stationary "
                           f"(min-norm^2/s^2 = {float(mn2):.3e} > norm_eps^2)")
                else:
                    chk.note("cagrad_zero_at_norm_eps_stationarity" + ("_c0" if cc == 0 else ""))
        elif abs(d - cc * n0) > tol:
            # at (numerical) stationarity g_w ~ 0 and A = g0 + c|g0| g_w/|g_w| is dominated by the
            # conic solver's residual: the property allows the zero vector there, and nothing
            # definite can be demanded of a direction computed from noise
            s = A.sigma_max(J)
            mn2 = minnorm_exact(A.gram(J)) / (s * s) if s > 0 else F(0)
            if mn2 < F(1, 10**6):
                chk.note("skipped_cagrad_numerically_stationary")
            else:
                bad = f"CAGrad(c={cc}): |A - g0| = {d:.9e} differs from c|g0| = {cc*n0:.9e}"
    if bad:
        rep = R.case_json(c, dt)
        rep.update({"kind": "oracle", "output": o[:2]})
        chk.violation(bad, rep)
        found.add(("CAGrad", A.jsonable(J).__repr__(), dt))


def run(chk):
    rng = pyrandom.Random(chk.seed * 15485863 + 18)
    q = chk.tier == "quick"
    found = set()
    check_pcgrad(chk, rng, 40 if q else 600, found)
    check_graddrop(chk, rng, 40 if q else 500, found)
    check_random(chk, rng, 20 if q else 200)
    cases = []
    for i in range(60 if q else 1000):
        name = ["MGDA", "CAGrad"][i % 2]
        c = R.gen_case(rng, name)
        if name == "MGDA":
            if rng.random() < 0.4:
                c["J"] = c["J"][:2] if len(c["J"]) >= 2 else c["J"]
            c["params"] = {"epsilon": rng.choice([F(1, 1000), F(0)]),
                           "max_iters": rng.choice([1, 2, 3, 5, 8, 100])}
        cases.append(c)
        sib = R.sibling(c)
        if sib is not None and name == "MGDA":
            cases.append(sib)
    corr = []
    for c in cases:
        if c["name"] == "MGDA" and c["params"]["max_iters"] > 8:
            continue
        # J and the parameters were replaced after gen_case's own filter: re-apply the tie-free
        # quantifier of the MGDA correspondence (exact argmin ties are broken differently in float32)
        if c["name"] == "MGDA" and not R.well_conditioned(c["J"], "MGDA", c["params"]):
            chk.note("corr_skipped_mgda_tie")
            continue
        corr.append(c)
    kept, dis = R.run_corr(chk, corr, "c18")
    for c in cases:
        chk.count(R.case_json(c), nontrivial=len(c["J"]) > 1 and c["cat"] != "zero")
        for dt in ("f64", "f32"):
            (oracle_mgda if c["name"] == "MGDA" else oracle_cagrad)(chk, c, dt, found)
    # MGDA at the ends of the range in which its Gramian is representable: the defining clauses (checked above
    # at scale 1) must survive the exact factor 2^e
    n_ext = 0
    for c in cases:
        if c["name"] == "MGDA" and len(c["J"]) >= 2 and n_ext < (6 if q else 60) and float(A.sigma_max(c["J"])) > 0 \
                and c["params"]["max_iters"] >= 1 and R.well_conditioned(c["J"], "MGDA", {**c["params"], "max_iters": min(c["params"]["max_iters"], 20)}):
            n_ext += 1
            R.extreme_scales(chk, found, c, {"f64": 1e-6, "f32": 5e-3}, "C18")
    chk.notes["extreme_scale_cases"] = n_ext
    R.report_corr(chk, dis, found)
    chk.cov["rule"] = ("PCGrad: random conflicting matrices m<=4, ALL (m-1)!^m projection orders "
                       "enumerated by the model and by an exact reference, implementation under "
                       "12/40 seeds must lie in the candidate set; GradDrop: two candidates per "
                       "coordinate, all seeds x 4 purity functions f x leak vectors; Random: "
                       "positivity/sum; MGDA/CAGrad: AGG-CORR + clauses; non-trivial = conflicting "
                       "pairs / mixed-sign columns / more than one row")
    chk.assumptions += ["torch.randperm/rand/randn are not replicated: candidate-set membership",
                        "CLARABEL's answer enters the model as an oracle (harness' own cvxpy solve)"]


def replay(chk, obj):
    found = set()
    c = {"name": obj["aggregator"], "params": A.unjson(obj["params"]), "J": A.unjson(obj["J"]),
         "cat": obj.get("cat", "")}
    dt = obj.get("dtype", "f64")
    if obj.get("kind") == "extreme_scale":
        c["params"]["max_iters"] = int(c["params"]["max_iters"])
        return R.extreme_scales(chk, found, c, {"f64": 1e-6, "f32": 5e-3}, "C18", dts=(obj.get("dtype", "f64"),))
    if c["name"] == "MGDA":
        c["params"]["max_iters"] = int(c["params"]["max_iters"])
        pre = R.presibling(c)
        if pre is not None:                      # replay the two-call sequence on the reused instance
            for d in ("f64", "f32"):
                oracle_mgda(chk, pre, d, found)
        oracle_mgda(chk, c, dt, found)
    elif c["name"] == "CAGrad":
        oracle_cagrad(chk, c, dt, found)
    elif c["name"] == "PCGrad":
        J = c["J"]
        sets = [pc_row_candidates(J, i) for i in range(len(J))]
        r = A.impl_call("PCGrad", {}, J, dt, seed=obj.get("seed", 0))
        ok = r[0] == "ok" and in_minkowski(r[1], sets, TOL[dt] * float(A.maxabs(J)) * len(J) * 10)
        print("observed", r[:2], "in candidate set:", ok)
        return ok
    elif c["name"] == "GradDrop":
        J, leak = c["J"], c["params"].get("leak")
        pos, neg = gd_candidates(J, leak)
        f = FS[obj.get("f", "identity")]
        agg = GradDrop(leak=A.vec_t(leak, dt)) if f is None else GradDrop(f=f, leak=A.vec_t(leak, dt))
        torch.manual_seed(obj.get("seed", 0))
        out = [float(x) for x in agg(A.to_tensor(J, dt)).to(torch.float64)]
        sc = max(float(A.maxabs(J)) * len(J), 1e-300)
        ok = all(min(abs(out[j] - float(pos[j])), abs(out[j] - float(neg[j]))) <= TOL[dt] * sc * 10
                 for j in range(len(out)))
        print("observed", out, "pos", [float(x) for x in pos], "neg", [float(x) for x in neg])
        return ok
    return not chk.violations
