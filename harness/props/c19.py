"""C19 — NashMTL's state: reset() means fresh, weights are reused as scheduled.
Obligations: props/C19.v.  Correspondence (histories): the model's core machine (Nash.v) run on the
same histories, the solver's answers taken from a twin instance with max_norm = 0 (whose returned
weights are the raw alpha); compared: outputs, solver-invocation pattern (counted by wrapping the
public cvxpy.Problem.solve).  Direct oracle: after every reset the suffix is replayed on a newly
constructed instance (outputs must coincide), every call succeeds, recomputation exactly on calls
0, k, 2k, ... since the last reset, |A(J)| <= max_norm."""
import itertools
import math
import random as pyrandom
import warnings
from fractions import Fraction as F

import cvxpy
import torch

import agglib as A
import common
from common import cq, cqmat, cqvec
from torchjd.aggregation import NashMTL

warnings.filterwarnings("ignore")

SOLVES = [0]
_orig_solve = cvxpy.Problem.solve


def _counting_solve(self, *a, **kw):
    SOLVES[0] += 1
    return _orig_solve(self, *a, **kw)


def alphabet(m, rng):
    base = {2: [[3, 1, -2, 1], [1, 4, 1, -1]],
            3: [[3, 1, -2, 1], [1, 4, 1, -1], [-1, 2, 3, 2]],
            4: [[3, 1, -2, 1, 0], [1, 4, 1, -1, 1], [-1, 2, 3, 2, 0], [2, -1, 1, 4, 1]],
            5: [[3, 1, -2, 1, 0, 1], [1, 4, 1, -1, 1, 0], [-1, 2, 3, 2, 0, 1], [2, -1, 1, 4, 1, 0],
                [0, 1, -1, 1, 4, 2]]}[m]
    J1 = [[F(x) for x in r] for r in base]
    J2 = [[F(x) * F(1, 8) for x in r] for r in reversed(base)]
    J3 = [[F(x + (1 if (i + j) % 2 else 0)) * F(1, 64) for j, x in enumerate(r)] for i, r in enumerate(base)]
    # pairwise ORTHOGONAL rows of different lengths (independent tasks): the Nash solution has the closed form
    # alpha_i = 1/|g_i|, a tempting shortcut around the solver and around the bookkeeping that follows it
    n = len(base[0])
    J4 = [[F((i + 2) if j == i else 0) for j in range(n)] for i in range(m)]
    return [J1, J2, J3, J4]


def run_impl(hist, mats, m, k, max_norm, dt):
    """hist: list of matrix indices or None (= reset).  Returns per call: (output list | error,
    number of solver invocations)."""
    agg = NashMTL(n_tasks=m, max_norm=max_norm, update_weights_every=k)
    # a SECOND live aggregator with the same n_tasks is called on another matrix between any two calls of the
    # first one: instances do not share state
    other = NashMTL(n_tasks=m, max_norm=1.0, update_weights_every=1)
    res = []
    for h in hist:
        if h is None:
            agg.reset()
            continue
        try:
            other(A.to_tensor(mats[(h + 1) % len(mats)], dt))
        except Exception:  # noqa: BLE001
            pass
        SOLVES[0] = 0
        try:
            out = agg(A.to_tensor(mats[h], dt))
            res.append(([float(x) for x in out.to(torch.float64)], SOLVES[0]))
        except Exception as e:  # noqa: BLE001
            res.append((type(e).__name__, SOLVES[0]))
    return res


def run_twin_alpha(hist, mats, m, k, dt):
    """twin with max_norm = 0: the returned weights are the raw (un-rescaled) alpha of each call"""
    w = NashMTL(n_tasks=m, max_norm=0.0, update_weights_every=k).weighting
    res = []
    for h in hist:
        if h is None:
            w.reset()
            continue
        res.append([float(x) for x in w(A.to_tensor(mats[h], dt)).to(torch.float64)])
    return res


def model_runs(items):
    """items: list of (k, max_norm, m, ops) with ops = list of None | (J, ans).  Returns per item the
    list of (A(J) as Fractions, solved flag)."""
    pre = common.CASES_HEADER + "From TJ Require Import Nash.\n"
    pre += ("Definition show k mn m (ops : list (option (list (list Q) * list Q))) :=\n"
            "  map (fun '(ob, J) => (vout (combine_rows QN J (fst ob)), snd ob))\n"
            "      (List.combine (run_core QN k mn m (mkCore 0 (repeat 1%Q m)) ops)\n"
            "         (flat_map (fun o => match o with Some (J, _) => [J] | None => [] end) ops)).\n")
    files = []
    for i0 in range(0, len(items), 12):
        body = pre
        for (k, mn, m, ops) in items[i0:i0 + 12]:
            ol = "; ".join("None" if o is None else f"Some ({cqmat(o[0])}, {cqvec(o[1])})" for o in ops)
            body += f"Eval vm_compute in (show {k}%nat {cq(F(mn))} {m}%nat [{ol}]).\n"
        files.append((f"nash{i0}", body))
    out = []
    for o in common.coq_run_files(files, "c19"):
        for v in common.parse_coq_values(o):
            out.append([(common.frvec(x[0]), x[1]) for x in v])
    return out


def check_history(chk, hist, mats, m, k, max_norm, dt, items, metas):
    rep_base = {"kind": "c19", "n_tasks": m, "update_weights_every": k, "max_norm": max_norm,
                "dtype": dt, "history": ["reset" if h is None else h for h in hist],
                "matrices": A.jsonable(mats)}
    res = run_impl(hist, mats, m, k, max_norm, dt)
    chk.cov["traces_validated_against_impl"] += 1
    # (b) every call succeeds
    for i, (o, ns) in enumerate(res):
        if isinstance(o, str):
            chk.violation(f"NashMTL(update_weights_every={k}) call {i} raised {o}",
                          dict(rep_base, observed=[r[0] if isinstance(r[0], str) else "ok" for r in res]))
            return
    # (c) schedule: recomputed exactly on calls 0, k, 2k, ... since the last reset
    s, ci = 0, 0
    for h in hist:
        if h is None:
            s = 0
            continue
        solved = res[ci][1] > 0
        if solved != (s % k == 0) and "solver_dev" not in rep_base:
            # the solver is how recomputation is OBSERVED; what the property fixes is the VALUE of the weights
            # (recomputed on calls 0, k, 2k, ..., reused unchanged in between).  The deviation is kept and
            # judged after the value comparison with the model: a violation with this history as failing input
            # when the weights are wrong, a correspondence break (no failing input) when only the solver
            # bookkeeping differs (e.g. a correct closed form for a special case)
            rep_base["solver_dev"] = (f"NashMTL(k={k}): call {ci} (number {s} since reset) "
                                      f"{'invoked' if solved else 'did not invoke'} the solver")
            rep_base["solver_calls"] = [r[1] for r in res]
        s += 1
        ci += 1
    # (e) norm bound
    if max_norm > 0:
        for i, (o, _) in enumerate(res):
            nrm = math.sqrt(sum(x * x for x in o))
            if nrm > max_norm * (1 + 1e-5):
                chk.violation(f"NashMTL(max_norm={max_norm}): call {i} returned a vector of norm "
                              f"{nrm:.6f}", dict(rep_base, outputs=[r[0] for r in res]))
                return
    # (a) reset means fresh: replay every suffix after a reset on a new instance
    calls_before = 0
    for pos, h in enumerate(hist):
        if h is None:
            suffix = hist[pos + 1:]
            fresh = run_impl(suffix, mats, m, k, max_norm, dt)
            got = res[calls_before:]
            for j, (a, b) in enumerate(zip(got, fresh)):
                if isinstance(b[0], str) or max(abs(x - y) for x, y in zip(a[0], b[0])) > 1e-9 * max(
                        1.0, max(abs(y) for y in b[0])):
                    chk.violation(f"NashMTL: after reset() call {j} of the suffix differs from a newly "
                                  f"constructed aggregator", dict(rep_base, reset_position=pos,
                                                                  after_reset=a[0], fresh=b[0]))
                    return
        else:
            calls_before += 1
    # (d) reuse + model: raw alphas from the max_norm = 0 twin
    alphas = run_twin_alpha(hist, mats, m, k, dt)
    ops, ci = [], 0
    for h in hist:
        if h is None:
            ops.append(None)
        else:
            ops.append((mats[h], [F(x) for x in alphas[ci]]))
            ci += 1
    items.append((k, max_norm, m, ops))
    metas.append((rep_base, res, alphas))


def run(chk):
    cvxpy.Problem.solve = _counting_solve
    try:
        _run(chk)
    finally:
        cvxpy.Problem.solve = _orig_solve


def _run(chk):
    rng = pyrandom.Random(chk.seed * 472882027 + 19)
    q = chk.tier == "quick"
    items, metas = [], []
    configs = []
    # exhaustive over the alphabet {J0, J1, J2, reset} up to length 3 (quick) / 4 (thorough); histories of length <= 2
    # also over the orthogonal-row matrix J3
    L = 3 if q else 4
    # max_norm = 0 (rescaling disabled) with k >= 2 is enumerated too, not left to the random histories
    ex_cfg = ([(2, 2, 1.0, "f64", 3), (3, 2, 0.1, "f64", 2), (2, 3, 0.5, "f32", 2), (2, 2, 0.0, "f64", 2)] if q else
              [(2, 2, 1.0, "f64", 4), (3, 3, 0.1, "f32", 4), (2, 1, 0.5, "f64", 4), (4, 4, 1.0, "f64", 3),
               (3, 2, 0.1, "f64", 4), (2, 3, 0.5, "f32", 4), (2, 2, 0.0, "f64", 3), (3, 3, 0.0, "f32", 3)])
    for (m, k, mn, dt, L) in ex_cfg:
        mats = alphabet(m, rng)
        for ln in range(1, L + 1):
            for hist in itertools.product([0, 1, 2, 3, None] if ln <= 2 else [0, 1, 2, None], repeat=ln):
                if all(h is None for h in hist):
                    continue
                check_history(chk, list(hist), mats, m, k, mn, dt, items, metas)
                chk.count({"n_tasks": m, "k": k, "max_norm": mn, "history": ["reset" if h is None else h for h in hist]},
                          nontrivial=(None in hist) or len([h for h in hist if h is not None]) > k)
    # random longer histories for the other configurations
    for _ in range(14 if q else 150):
        m = rng.choice([2, 3, 4, 5])
        k = rng.choice([1, 2, 3, 4])
        mn = rng.choice([1.0, 0.1, 0.5, 0.0])
        dt = rng.choice(["f64", "f32"])
        mats = alphabet(m, rng)
        hist = [rng.choice([0, 1, 2, 3, 0, 1, 2, None]) for _ in range(rng.randint(3, 7))]
        if all(h is None for h in hist):
            continue
        check_history(chk, hist, mats, m, k, mn, dt, items, metas)
        chk.count({"n_tasks": m, "k": k, "max_norm": mn, "dtype": dt,
                   "history": ["reset" if h is None else h for h in hist]}, nontrivial=True)
    # model
    mres = model_runs(items) if items else []
    for (k, mn, m, ops), (rep_base, res, alphas), mr in zip(items, metas, mres):
        tol = 1e-5 if rep_base["dtype"] == "f32" else 1e-7
        value_bad = False
        for i, ((mo, mb), (io, ins)) in enumerate(zip(mr, res)):
            sc = max(1.0, max(abs(float(x)) for x in mo))
            if max(abs(float(a) - b) for a, b in zip(mo, io)) > tol * sc * 10:
                chk.violation(
                    (rep_base.get("solver_dev", "") + "; " if rep_base.get("solver_dev") else "") +
                    f"call {i}: the weights are not those of the schedule (recomputed on calls 0, k, 2k, ..., reused "
                    f"unchanged in between): expected output {[float(x) for x in mo]}, got {io} "
                    f"(k={k}, max_norm={mn}; model {'solves' if mb else 'reuses'} here, implementation made {ins} solver calls)",
                    dict(rep_base, call=i, twin_alphas=alphas), no_input=False)
                value_bad = True
                break
        if not value_bad:
            dev = rep_base.get("solver_dev") or next(
                (f"call {i}: model {'solves' if mb else 'reuses'}, implementation made {ins} solver calls"
                 for i, ((mo, mb), (io, ins)) in enumerate(zip(mr, res)) if mb != (ins > 0)), None)
            if dev:
                chk.violation("correspondence (recomputation is observed through the solver): " + dev +
                              "; every output agrees with the schedule's weights", dict(rep_base, twin_alphas=alphas),
                              no_input=True)
    chk.cov["rule"] = ("exhaustive over the alphabet {3 matrices of different scales, reset} up to length "
                       "3 (quick) / 4 (thorough) for the listed configurations, plus random histories of "
                       "length 3-7 over n_tasks 2..5, k 1..4, max_norm in {1, 0.5, 0.1, 0}, f32/f64; "
                       "non-trivial = contains a reset or more calls than k")
    chk.assumptions += ["ECOS/cvxpy are deterministic; the solver is an oracle of the model",
                        "the twin with max_norm = 0 exposes the raw alpha through the public weighting"]


def replay(chk, obj):
    cvxpy.Problem.solve = _counting_solve
    try:
        mats = A.unjson(obj["matrices"])
        hist = [None if h == "reset" else int(h) for h in obj["history"]]
        items, metas = [], []
        check_history(chk, hist, mats, obj["n_tasks"], obj["update_weights_every"], obj["max_norm"],
                      obj["dtype"], items, metas)
        print(run_impl(hist, mats, obj["n_tasks"], obj["update_weights_every"], obj["max_norm"], obj["dtype"]))
        if items and not chk.violations:
            mres = model_runs(items)
            (k, mn, m, ops), (rep_base, res, alphas), mr = items[0], metas[0], mres[0]
            for i, ((mo, mb), (io, ins)) in enumerate(zip(mr, res)):
                if mb != (ins > 0) or max(abs(float(a) - b) for a, b in zip(mo, io)) > 1e-4 * max(1.0, max(abs(float(x)) for x in mo)):
                    print("model/impl differ at call", i, [float(x) for x in mo], io)
                    return False
    finally:
        cvxpy.Problem.solve = _orig_solve
    return not chk.violations
