"""C20 — a call rejected for its arguments changes nothing.
Obligations: coq/theories/props/C20.v.
Fault enumeration: every kind of invalid argument x every position in the relevant list x a valid
remainder over random programs with pre-existing .grad; the call must raise and every leaf's .grad
(value, None-ness, storage pointer, version counter) must be what it was.  The Coq model is run on
the same faulted calls: it must reject them too and leave the store's .grad fields unchanged.
The exception class is recorded, not compared (the property does not fix it)."""
import random

import torch

import ajcheck
import ajlib
from ajlib import numel
from torchjd import backward, mtl_backward
from torchjd.aggregation import Aggregator, Constant, Krum, Mean, TrimmedMean

N_QUICK, N_THOROUGH = 40, 500


class Rejecting(Aggregator):
    def forward(self, matrix):
        raise ValueError("this aggregator rejects every matrix")


def snapshot(ts, prog):
    snap = {}
    for t in range(prog.n()):
        if prog.is_leaf[t]:
            g = ts[t].grad
            snap[t] = None if g is None else (g.reshape(-1).tolist(), g.data_ptr(), g._version, id(g))
    return snap


def backward_faults(rng, prog, outs, leaves):
    """list of (kind, position, call dict)"""
    faults = []
    m = sum(numel(prog.shapes[o]) for o in outs)
    base = {"entry": "backward", "tensors": outs, "inputs": leaves, "agg": ["sum"], "k": None, "retain": True}
    for k in (0, -1):
        faults.append(("chunk", None, dict(base, k=k)))
    faults.append(("empty_tensors", None, dict(base, tensors=[])))
    for pos in range(len(outs) + 1):
        dup = outs[:pos] + [rng.choice(outs)] + outs[pos:]
        faults.append(("duplicate_tensors", pos, dict(base, tensors=dup)))
    nonleaf = [t for t in range(prog.n()) if prog.req[t] and not prog.is_leaf[t]]
    noreq = [t for t in range(prog.n()) if prog.is_leaf[t] and not prog.req[t]]
    for bad_pool, kind in ((nonleaf, "input_nonleaf"), (noreq, "input_no_requires_grad")):
        if not bad_pool:
            continue
        bad = rng.choice(bad_pool)
        for pos in range(len(leaves) + 1):
            faults.append((kind, pos, dict(base, inputs=leaves[:pos] + [bad] + leaves[pos:])))
    faults.append(("aggregator_rejects", None, dict(base, agg=["constant", list(range(1, m + 2))])))
    faults.append(("aggregator_rejects", None, dict(base, agg=["reject"], impl_agg="rejecting")))
    faults.append(("aggregator_rejects", None, dict(base, agg=["reject"], impl_agg="krum")))
    faults.append(("aggregator_rejects", None, dict(base, agg=["reject"], impl_agg="trimmed")))
    return faults


def mtl_faults(rng, prog, feats, losses, tasks, shared):
    faults = []
    base = {"entry": "mtl", "losses": losses, "features": feats, "tasks": tasks, "shared": shared,
            "agg": ["sum"], "k": None, "retain": True}
    for k in (0, -1):
        faults.append(("chunk", None, dict(base, k=k)))
    faults.append(("empty_features", None, dict(base, features=[])))
    faults.append(("empty_losses", None, dict(base, losses=[], tasks=[])))
    nonscalar = [t for t in range(prog.n()) if prog.req[t] and not prog.is_leaf[t] and prog.shapes[t] != ()]
    if nonscalar:
        ns = rng.choice(nonscalar)
        for pos in range(len(losses)):
            faults.append(("nonscalar_loss", pos, dict(base, losses=losses[:pos] + [ns] + losses[pos + 1:])))
    faults.append(("length_mismatch", None, dict(base, tasks=tasks[:-1])))
    faults.append(("length_mismatch", None, dict(base, tasks=tasks + [[]])))
    if shared:
        for ti in range(len(tasks)):
            for pos in range(len(tasks[ti]) + 1):
                tp = [list(ps) for ps in tasks]
                tp[ti] = tp[ti][:pos] + [rng.choice(shared)] + tp[ti][pos:]
                faults.append(("overlap", (ti, pos), dict(base, tasks=tp)))
        faults.append(("duplicate_shared", None, dict(base, shared=shared + [shared[0]])))
    faults.append(("duplicate_features", None, dict(base, features=feats + [feats[0]])))
    for ti in range(len(tasks)):
        if tasks[ti]:
            tp = [list(ps) for ps in tasks]
            tp[ti] = tp[ti] + [tp[ti][0]]
            faults.append(("duplicate_task_params", ti, dict(base, tasks=tp)))
        tp = [list(ps) for ps in tasks]
        tp[ti] = tp[ti] + [feats[0]]
        faults.append(("task_param_is_feature", ti, dict(base, tasks=tp)))
    nonleaf = [t for t in range(prog.n()) if prog.req[t] and not prog.is_leaf[t] and t not in feats]
    noreq = [t for t in range(prog.n()) if prog.is_leaf[t] and not prog.req[t]]
    for pool, kind in ((nonleaf, "param_nonleaf"), (noreq, "param_no_requires_grad")):
        if not pool:
            continue
        bad = rng.choice(pool)
        for pos in range(len(shared) + 1):
            faults.append((kind, ("shared", pos), dict(base, shared=shared[:pos] + [bad] + shared[pos:])))
            # the same invalid shared parameter with the OTHER collection left to its default
            faults.append((kind, ("shared, tasks_params defaulted", pos),
                           dict(base, tasks=None, shared=shared[:pos] + [bad] + shared[pos:])))
        for ti in range(len(tasks)):
            for pos in range(len(tasks[ti]) + 1):
                tp = [list(ps) for ps in tasks]
                tp[ti] = tp[ti][:pos] + [bad] + tp[ti][pos:]
                faults.append((kind, (ti, pos), dict(base, tasks=tp)))
                if pos == 0:
                    faults.append((kind, (ti, "shared_params defaulted"), dict(base, tasks=tp, shared=None)))
    # a NON-LEAF VIEW of a parameter that is itself listed earlier (q.reshape(...): same storage, same data_ptr,
    # same values, a different tensor): listed in the last task, after its base in an earlier group
    if len(tasks) >= 2:
        bases = [q for q in (list(shared) + [x for ps in tasks[:-1] for x in ps]) if len(prog.shapes[q]) <= 1]
        if bases:
            q = rng.choice(bases)
            v = prog.op("reshape", [q], shape=prog.shapes[q])
            tp = [list(ps) for ps in tasks]
            tp[-1] = tp[-1] + [v]
            faults.append(("param_view_of_listed_leaf", (len(tasks) - 1, len(tp[-1]) - 1), dict(base, tasks=tp)))
    return faults


def gen_case(rng, idx):
    if idx % 2 == 0:
        for _ in range(100):
            prog = ajlib.gen_program(rng)
            outs = [t for t in range(prog.n()) if prog.req[t] and not prog.is_leaf[t]]
            leaves = [t for t in range(prog.n()) if prog.is_leaf[t] and prog.req[t]]
            if outs and leaves:
                break
        rng.shuffle(outs)
        outs = [o for o in outs[:3]]
        while sum(numel(prog.shapes[o]) for o in outs) > 20:
            outs = outs[:-1] or outs[:1]
            if len(outs) == 1:
                break
        faults = backward_faults(rng, prog, outs, leaves)
    else:
        prog, feats, losses, tasks, shared = ajlib.gen_mtl(rng, nested=False)
        leaves = [t for t in range(prog.n()) if prog.is_leaf[t] and prog.req[t]]
        faults = mtl_faults(rng, prog, feats, losses, tasks, shared)
    old = ajcheck.rand_old(rng, prog, leaves, p=0.7)
    return {"id": idx, "prog": prog.to_json(), "faults": faults, "old": old}


def impl_agg(call, m):
    ia = call.get("impl_agg")
    if ia == "rejecting":
        return Rejecting()
    if ia == "krum":
        return Krum(n_byzantine=m + 1, n_selected=1)
    if ia == "trimmed":
        return TrimmedMean(trim_number=m)
    return None


def run_fault(case, call, trial=0):
    prog = ajlib.Program.from_json(case["prog"])
    ts = prog.build(torch.float64)
    ajlib.set_old_grads(ts, prog, case["old"], torch.float64)
    before = snapshot(ts, prog)
    m = sum(numel(prog.shapes[o]) for o in call.get("tensors", [])) if call["entry"] == "backward" else 0
    if call["entry"] == "mtl":
        # the parameter groups are Iterables: the three trials hand them over as lists, generators
        # (module.parameters()) and one-shot iterators
        call = dict(call, param_kind=["list", "gen", "iter"][trial % 3])
    err = ajlib.impl_call(ts, call, torch.float64, impl_agg(call, m))
    after = snapshot(ts, prog)
    return err, before, after


def model_call(call):
    c = dict(call)
    if c["k"] is not None and c["k"] <= 0:
        c["k"] = 0
    return c


def run(chk):
    rng = random.Random(20000 + chk.seed)
    n = N_QUICK if chk.tier == "quick" else N_THOROUGH
    cases = [gen_case(rng, i) for i in range(n)]
    chk.cov["rule"] = ("fault enumeration: kinds {chunk 0/-1, empty tensors/features/losses, duplicate "
                       "tensors/features/shared/task params, task param that is a feature, non-scalar loss, "
                       "length mismatch, shared/task overlap, non-leaf or no-grad input/parameter, aggregator "
                       "rejection (wrong-length Constant, Krum/TrimmedMean with too few rows, a rejecting "
                       "aggregator)} x every position x valid remainder, random programs with pre-existing "
                       ".grad on 70 % of the leaves; 3 trials per fault for address-dependent set orders")
    # model runs
    mcases = []
    for case in cases:
        prog = ajlib.Program.from_json(case["prog"])
        calls = []
        for (_, _, call) in case["faults"]:
            calls.append(ajcheck.prepare_call(prog, model_call(call)))
        mcases.append({"id": case["id"], "prog": case["prog"], "calls": calls, "old": case["old"]})
    models = ajcheck.run_models(mcases, "c20", batch=6)
    kinds, classes = {}, {}
    for case in cases:
        prog = ajlib.Program.from_json(case["prog"])
        for fi, (kind, pos, call) in enumerate(case["faults"]):
            kinds[kind] = kinds.get(kind, 0) + 1
            for trial in range(3):
                err, before, after = run_fault(case, call, trial)
                chk.count({"id": case["id"], "kind": kind, "pos": str(pos), "trial": trial}, nontrivial=True)
                rep = {"kind": "c20", "case": {"id": case["id"], "prog": case["prog"], "old": case["old"],
                                               "faults": [[kind, pos, call]]}, "fault": kind, "pos": pos}
                if err is None:
                    chk.violation(f"C20 {call['entry']} accepted an invalid call ({kind} at {pos})", rep)
                    break
                classes[err] = classes.get(err, 0) + 1
                if before != after:
                    changed = [t for t in before if before[t] != after[t]]
                    chk.violation(
                        f"C20 {call['entry']} raised {err} for {kind} at position {pos} AFTER modifying the "
                        f".grad of leaves {changed}", dict(rep, before=str(before)[:600], after=str(after)[:600]))
                    break
            mr = models[case["id"]][fi]
            chk.cov["traces_validated_against_impl"] += 1
            mg = ajcheck.model_grads(prog, mr)
            exp = {t: (None if case["old"].get(str(t)) is None else case["old"][str(t)]) for t in mg}
            same = all((mg[t] is None) == (exp[t] is None) and (mg[t] is None or [int(x) for x in mg[t][1]] == exp[t])
                       for t in mg)
            if mr["code"] == 0 or not same:
                chk.violation(f"correspondence: the Coq model {'accepts' if mr['code'] == 0 else 'modifies .grad on'} "
                              f"the faulted call ({kind} at {pos}); theorems of props/C20.v no longer describe the code",
                              {"kind": "c20-corr", "case": case["id"], "fault": kind, "pos": pos,
                               "model": str(mr)[:800]}, no_input=True)
            if len(chk.violations) >= 3:
                break
        if len(chk.violations) >= 3:
            break
    chk.cov["input_distribution"] = {"fault_kinds": kinds, "exception_classes_observed": classes}
    chk.assumptions += ["exception classes are recorded, not compared (the property does not fix them)"]


def replay(chk, obj):
    case = obj["case"]
    ok = True
    for kind, pos, call in case["faults"]:
        for trial in range(5):
            err, before, after = run_fault(case, call, trial)
            print(kind, pos, "->", err, "unchanged" if before == after else "CHANGED")
            if err is None or before != after:
                ok = False
    return ok
