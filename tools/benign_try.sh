#!/bin/bash
# tools/benign_try.sh <worktree> <tag> [ids...]: run quick checks (default: all 20) against a behaviour-preserving
# change applied in a scratch worktree; every VIOLATION here is a FALSE ALARM of the machinery.
wt=$1; tag=$2; shift 2
ids=${@:-C01 C02 C03 C04 C05 C06 C07 C08 C09 C10 C11 C12 C13 C14 C15 C16 C17 C18 C19 C20}
out=/verif/_scratch/benign_$tag.txt; : > $out
for id in $ids; do
  res=$(cd /verif && VERIF_REPO_SRC=$wt/src VERIF_SEED=94 timeout 3000 ./check $id --tier quick 2>&1 | grep -v conda | grep -E "VIOLATION|KNOWN|^#" | head -3 | cut -c1-300)
  echo "$id :: ${res:-clean}" >> $out
done
echo DONE >> $out
