#!/bin/bash
# tools/confirm_and_try_d.sh <Cxx> [suffix=d]: confirm a round-d seeded change delivered in /tmp/seedout/<Cxx>-<s>/
# in its scratch worktree /tmp/wt/<Cxx><s> (patch applies, suite passes, demo fails with / passes without),
# copy it to /verif/seeded/<Cxx>-<s>/, then run the quick check of the property against the patched worktree.
id=$1; x=${2:-d}
wt=/tmp/wt/$id$x; src=/tmp/seedout/$id-$x; out=/verif/seeded/$id-$x
[ -f $src/patch.diff ] || { echo "$id-$x: no patch"; exit 1; }
cd $wt || exit 1
git checkout -q -- . ; git clean -fdq src
git apply $src/patch.diff || { echo "$id-$x: patch does not apply"; exit 1; }
OMP_NUM_THREADS=2 PYTHONPATH=$wt/src /venv/bin/python -m pytest -q -p no:cacheprovider --timeout=900 -x > $src/tests.log 2>&1
trc=$?
tsum=$(grep -E "passed|failed" $src/tests.log | tail -1)
OMP_NUM_THREADS=2 PYTHONPATH=$wt/src PYTHONHASHSEED=0 /venv/bin/python $src/demo.py > $src/demo_mut.log 2>&1
drc_mut=$?
git checkout -q -- . ; git clean -fdq src
OMP_NUM_THREADS=2 PYTHONPATH=$wt/src PYTHONHASHSEED=0 /venv/bin/python $src/demo.py > $src/demo_clean.log 2>&1
drc_clean=$?
echo "$id-$x tests_rc=$trc ($tsum) demo_with_mutant_rc=$drc_mut demo_clean_rc=$drc_clean"
if [ $trc -eq 0 ] && [ $drc_mut -ne 0 ] && [ $drc_clean -eq 0 ]; then
  mkdir -p $out
  cp $src/patch.diff $src/demo.py $out/
  /venv/bin/python - "$src/meta.json" "$out/meta.json" "$id" "$tsum" "$wt" <<'PY'
import json, sys
src, dst, pid, tsum, wt = sys.argv[1:6]
try:
    m = json.load(open(src))
except Exception:
    m = {}
meta = {"property": pid, "summary": m.get("summary"), "files_changed": m.get("files_changed"),
        "needs_to_manifest": m.get("needs_to_manifest"),
        "confirmed_by_me": {"scratch_worktree": "%s (git worktree of /repo HEAD, removed afterwards)" % wt,
                            "ran": ["git apply patch.diff",
                                    "PYTHONPATH=<wt>/src /venv/bin/python -m pytest -q -p no:cacheprovider --timeout=900 -x  -> " + tsum,
                                    "demo.py with the change -> exit != 0 (FAIL)",
                                    "git checkout -- . ; demo.py -> exit 0 (PASS)"]},
        "detected_by": "see DESIGN.md section 15 tables"}
json.dump(meta, open(dst, "w"), indent=1)
PY
  git apply $src/patch.diff
  res=$(cd /verif && VERIF_REPO_SRC=$wt/src VERIF_SEED=97 timeout 2400 ./check $id --tier quick 2>&1 | grep -v conda)
  v=$(echo "$res" | grep -c "^VIOLATION")
  why=$(echo "$res" | grep "^#" | head -1 | cut -c1-220)
  echo "$id-$x QUICK violations=$v $why"
  git checkout -q -- . ; git clean -fdq src
fi
