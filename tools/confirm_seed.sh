#!/bin/bash
# tools/confirm_seed.sh <Cxx> <a|b>: confirm a sub-agent's seeded change in its scratch worktree
# (/tmp/wt/Cxx): patch applies, whole test suite passes, demo FAILs with it and PASSes without it.
# On success copies it to /verif/seeded/<Cxx>-<x>/ with a confirmation record.
id=$1; x=$2
wt=/tmp/wt/$id; src=/tmp/seedout/$id/$x; out=/verif/seeded/$id-$x
[ -f $src/patch.diff ] || { echo "$id-$x: no patch"; exit 1; }
cd $wt || exit 1
git checkout -q -- . ; git clean -fdq src
git apply $src/patch.diff || { echo "$id-$x: patch does not apply"; exit 1; }
PYTHONPATH=$wt/src /venv/bin/python -m pytest -q -p no:cacheprovider --timeout=900 -x > /tmp/seedout/$id/$x.tests.log 2>&1
trc=$?
tsum=$(grep -E "passed|failed" /tmp/seedout/$id/$x.tests.log | tail -1)
PYTHONPATH=$wt/src PYTHONHASHSEED=0 /venv/bin/python $src/demo.py > /tmp/seedout/$id/$x.demo_mut.log 2>&1
drc_mut=$?
git checkout -q -- . ; git clean -fdq src
PYTHONPATH=$wt/src PYTHONHASHSEED=0 /venv/bin/python $src/demo.py > /tmp/seedout/$id/$x.demo_clean.log 2>&1
drc_clean=$?
echo "$id-$x tests_rc=$trc ($tsum) demo_with_mutant_rc=$drc_mut demo_clean_rc=$drc_clean"
if [ $trc -eq 0 ] && [ $drc_mut -ne 0 ] && [ $drc_clean -eq 0 ]; then
  mkdir -p $out
  cp $src/patch.diff $src/demo.py $out/
  /venv/bin/python - "$src/meta.json" "$out/meta.json" "$id" "$tsum" <<'PY'
import json, sys
src, dst, pid, tsum = sys.argv[1:5]
try:
    m = json.load(open(src))
except Exception:
    m = {}
meta = {"property": pid, "summary": m.get("summary"), "files_changed": m.get("files_changed"),
        "needs_to_manifest": m.get("needs_to_manifest"),
        "confirmed_by_me": {"scratch_worktree": "/tmp/wt/%s (git worktree of /repo HEAD, removed afterwards)" % pid,
                            "ran": ["git apply patch.diff",
                                    "PYTHONPATH=<wt>/src /venv/bin/python -m pytest -q -p no:cacheprovider --timeout=900 -x  -> " + tsum,
                                    "demo.py with the change -> exit != 0 (FAIL)",
                                    "git checkout -- . ; demo.py -> exit 0 (PASS)"]},
        "detected_by": "see DESIGN.md section 11 table"}
json.dump(meta, open(dst, "w"), indent=1)
PY
fi
