"""Regenerates /verif/MANIFEST.json from the table below (keeps it schema-valid at all times)."""
import json
import os

import jsonschema
import sys
sys.path.insert(0, os.path.dirname(os.path.abspath(__file__)))

from manifest_entries import CLAIMED

ALL = [f"C{i:02d}" for i in range(1, 21)]


def main():
    checks = []
    for pid, (cat, text, ref, note, tech) in CLAIMED.items():
        checks.append({
            "property_id": pid,
            "quick_cmd": f"./check {pid} --tier quick",
            "thorough_cmd": f"./check {pid} --tier thorough",
            "evidence_file": f"/verif/evidence/{pid}.json",
            "replay_cmd_template": f"./check {pid} --replay {{path}}",
            "engine": "coq-proof+correspondence",
            "level_claimed": {"category": cat, "text": text, "design_ref": ref},
            "level_note": note,
            "technique": tech,
        })
    na = [{"property_id": p, "reason": "check not yet built in this round (model and theorems in progress); "
           "the technique applies, see DESIGN.md §8"} for p in ALL if p not in CLAIMED]
    man = {
        "version": 1,
        "setup_cmd": "cd /verif/coq && coq_makefile -f _CoqProject -o Makefile && timeout 3000 make -j16",
        "hooks": {"guard": "TORCHJD_VERIF", "enable": "no source hooks: all observables are reachable "
                  "from outside (tensor hooks, wrappers of public torch/cvxpy functions)",
                  "baseline_off_cmd": "cd /repo && /venv/bin/python -m pytest -ra -q -p no:cacheprovider "
                  "--timeout=900 --continue-on-collection-errors",
                  "source_commits": [], "add_only": True},
        "engines": [{"name": "coq-proof+correspondence", "path": "/verif/check",
                     "serves_properties": sorted(CLAIMED),
                     "kind_free_text": "Coq 8.16.1 theorems about a hand-written executable Gallina model; "
                     "model run with vm_compute on generated cases and diffed against /repo (PYTHONPATH=/repo/src); "
                     "direct property oracle on the implementation for concrete replays"}],
        "checks": checks,
        "not_applicable": na,
        "notes": "fix: commits in /repo (recorded in known_findings.json): D1 C20 atomic rejection, D2 C19 NashMTL "
                 "reuse branch, D3 C11 IMTLG scale-free guard, D4 C12 gradient edges instead of grad_fn nodes, D5 C02 "
                 "one-shot iterables of parameters, D6 C08 ConFIG rank tolerance independent of the number of columns. "
                 "Every check first runs the regression witnesses corpus/regressions/<cxx>_*.py of its property. "
                 "Aggregator checks reuse ONE instance per parameter set and ONE buffer per shape (statelessness is "
                 "exercised by every property), verify that parameter tensors come back unmodified, treat a non-finite "
                 "answer to a finite matrix as an error, and probe the ends of the dtype's range (C03, C04, C09, C18), "
                 "clustered rows and model-sized column counts (C08, C10, C17). Autojac checks observe that the "
                 "aggregator is applied once to the exact Jacobian (correspondence with the model), build every third "
                 "leaf of rank >= 2 column-major, and use heads with aliased gradient objects. 210 seeded changes "
                 "(seeded/, eleven rounds by fresh sub-agents, index in seeded/INDEX.md) and fourteen behaviour-preserving change sets (benign/) "
                 "document what the quick checks catch and that they stay silent on harmless rewrites (DESIGN.md 15.4-15.11).",
    }
    schema = json.load(open("/root/.vp/MANIFEST.schema.json"))
    jsonschema.validate(man, schema)
    json.dump(man, open("/verif/MANIFEST.json", "w"), indent=1)
    print("MANIFEST.json written:", len(checks), "checks,", len(na), "not_applicable")


if __name__ == "__main__":
    main()
