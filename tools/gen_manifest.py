"""Regenerates /verif/MANIFEST.json from the table below (keeps it schema-valid at all times)."""
import json
import os

import jsonschema

CLAIMED = {
    # pid: (category, text, design_ref, level_note, technique)
    "C07": ("proof",
            "Coq theorems (props/C07.v, axiom-free) about the chunk plan of Jac for ALL m>=1 and all valid "
            "chunk sizes: exactly ceil(m/k) sweeps, contiguous/in order/covering rows 0..m-1, 1..k rows each, "
            "batched iff more than one row, k=1 or m=1 never batched, all sweeps but the last retain the graph, "
            "row-wise result independent of k. Tied to /repo by an exhaustive (m<=12, all k, both flags, both "
            "entry points) comparison of the model's plan with the sweeps observed through a tensor hook, plus a "
            "direct oracle (sweep count, sizes, update values, vmap-incompatible graphs).",
            "DESIGN.md §8 C07",
            "Trusted: Coq kernel, the hand-written Chunk.v model (tied by correspondence), torch.vmap computing "
            "row-wise vjps, the hook firing once per sweep. No axioms.",
            "Coq proof + exhaustive small-scope correspondence"),
    "C03": ("proof",
            "Coq theorems over the reals (props/C03.v) for ALL matrices of all sizes: an exact KKT certificate "
            "implies minimality; G/s^2+reg_eps I is symmetric PSD; the minimiser is unique (reg_eps>0); the "
            "DualProj/UPGrad models return J^T w for THE minimiser(s) named in the property; with no conflicting "
            "pair (or s<norm_eps) and u>=0 they return exactly J^T u; wrong-length pref vectors are rejected. "
            "The QP kernel is an oracle whose answers the harness computes exactly (active sets over Fractions) "
            "and whose KKT certificates Coq re-checks exactly. Correspondence + direct oracle on random "
            "matrices of all categories, f32/f64.",
            "DESIGN.md §8 C03",
            "Trusted: Coq kernel + classical-reals axioms of the stdlib (listed in evidence), the Agg.v model "
            "(tied by correspondence), quadprog and LAPACK svd (checked per case against exact answers), float "
            "rounding (tolerances). The explanatory 'projection onto the dual cone' clause (Prop. 1 of the paper) "
            "is not proved.",
            "Coq proof (R) + differential correspondence with exact rational QP oracle"),
    "C04": ("proof",
            "PARTIAL. Proved in Coq for all matrices: at a minimiser (M w)_i >= 0, hence for DualProj and UPGrad "
            "(J.A(J))_i >= -reg_eps s^2 w_i for every row (props/C04.v). NOT yet proved (checked by the direct "
            "oracle only, and said so in the evidence): MGDA's allowance s*sqrt(|A|^2-minnorm^2), the Frank-Wolfe "
            "rate 8 s^2/(K+2), CAGrad's c>=1 clause. Direct oracle: the stated allowance on random matrices of "
            "all categories and exhaustively on all {-1,0,1} matrices (2x2,2x3,3x2 quick; up to 3x3 thorough), "
            "at scale 1 and at sigma_max just above norm_eps, all MGDA budgets 0..1000.",
            "DESIGN.md §8 C04, §13",
            "Trusted: as C03; exact rational min-norm point (harness) for MGDA's allowance; rounding slack "
            "1e-9 s^2 (f64) / 1e-3 s^2 (f32).",
            "Coq proof (QP part) + exhaustive small-scope oracle"),
}

ALL = [f"C{i:02d}" for i in range(1, 21)]


def main():
    checks = []
    for pid, (cat, text, ref, note, tech) in CLAIMED.items():
        checks.append({
            "property_id": pid,
            "quick_cmd": f"./check {pid} --tier quick",
            "thorough_cmd": f"./check {pid} --tier thorough",
            "evidence_file": f"/verif/evidence/{pid}.json",
            "replay_cmd_template": f"./check {pid} --replay {{path}}",
            "engine": "coq-proof+correspondence",
            "level_claimed": {"category": cat, "text": text, "design_ref": ref},
            "level_note": note,
            "technique": tech,
        })
    na = [{"property_id": p, "reason": "check not yet built in this round (model and theorems in progress); "
           "the technique applies, see DESIGN.md §8"} for p in ALL if p not in CLAIMED]
    man = {
        "version": 1,
        "setup_cmd": "cd /verif/coq && coq_makefile -f _CoqProject -o Makefile && timeout 3000 make -j16",
        "hooks": {"guard": "TORCHJD_VERIF", "enable": "no source hooks: all observables are reachable "
                  "from outside (tensor hooks, wrappers of public torch/cvxpy functions)",
                  "baseline_off_cmd": "cd /repo && /venv/bin/python -m pytest -ra -q -p no:cacheprovider "
                  "--timeout=900 --continue-on-collection-errors",
                  "source_commits": [], "add_only": True},
        "engines": [{"name": "coq-proof+correspondence", "path": "/verif/check",
                     "serves_properties": sorted(CLAIMED),
                     "kind_free_text": "Coq 8.16.1 theorems about a hand-written executable Gallina model; "
                     "model run with vm_compute on generated cases and diffed against /repo (PYTHONPATH=/repo/src); "
                     "direct property oracle on the implementation for concrete replays"}],
        "checks": checks,
        "not_applicable": na,
        "notes": "fix: commits in /repo (recorded in known_findings.json): D1 C20 atomic rejection, D2 C19 NashMTL "
                 "reuse branch, D3 C11 IMTLG scale-free guard.",
    }
    schema = json.load(open("/root/.vp/MANIFEST.schema.json"))
    jsonschema.validate(man, schema)
    json.dump(man, open("/verif/MANIFEST.json", "w"), indent=1)
    print("MANIFEST.json written:", len(checks), "checks,", len(na), "not_applicable")


if __name__ == "__main__":
    main()
