"""Claimed checks: pid -> (category, text, design_ref, level_note, technique)."""
CLAIMED = {
    # pid: (category, text, design_ref, level_note, technique)
    "C07": ("proof",
            "Coq theorems (props/C07.v, axiom-free) about the chunk plan of Jac for ALL m>=1 and all valid "
            "chunk sizes: exactly ceil(m/k) sweeps, contiguous/in order/covering rows 0..m-1, 1..k rows each, "
            "batched iff more than one row, k=1 or m=1 never batched, all sweeps but the last retain the graph, "
            "row-wise result independent of k; and for the ENTRY POINTS themselves (Autojac.v model): an accepted backward / mtl_backward call issues exactly the chunk plan of m = total output scalars / number of losses (C07_backward_sweeps, C07_mtl_sweeps). Tied to /repo by an exhaustive (m<=12, all k, both flags, both "
            "entry points) comparison of the model's plan with the sweeps observed through a tensor hook, plus a "
            "direct oracle (sweep count, sizes, update values, vmap-incompatible graphs).",
            "DESIGN.md §8 C07",
            "Trusted: Coq kernel, the hand-written Chunk.v model (tied by correspondence), torch.vmap computing "
            "row-wise vjps, the hook firing once per sweep. No axioms.",
            "Coq proof + exhaustive small-scope correspondence"),
    "C03": ("proof",
            "Coq theorems over the reals (props/C03.v) for ALL matrices of all sizes: an exact KKT certificate "
            "implies minimality; G/s^2+reg_eps I is symmetric PSD; the minimiser is unique (reg_eps>0); the "
            "DualProj/UPGrad models return J^T w for THE minimiser(s) named in the property; with no conflicting "
            "pair (or s<norm_eps) and u>=0 they return exactly J^T u; wrong-length pref vectors are rejected. "
            "THE minimiser exists and is unique on both sides of the norm_eps branch (C03_minimiser_exists_and_is_unique: Lipschitz functions "
            "attain their minimum on boxes, by induction on the dimension with one-dimensional compactness; no choice axiom; uses Classical_Prop.classic). "
            "The QP kernel is an oracle whose answers the harness computes exactly (active sets over Fractions) "
            "and whose KKT certificates Coq re-checks exactly. Correspondence + direct oracle on random "
            "matrices of all categories, f32/f64.",
            "DESIGN.md §8 C03",
            "Instance gap closed by theorem for the sqrt-free models (kktb, UPGrad, DualProj, MGDA, PCGrad, GradDrop, "
            "Random, TrimmedMean: TransferAggProofs.v: Q2R preserves 0,1,+,-,*,/,<=,<). "
            "Trusted: Coq kernel + classical-reals axioms of the stdlib (listed in evidence), the Agg.v model "
            "(tied by correspondence), quadprog and LAPACK svd (checked per case against exact answers), float "
            "rounding (tolerances). The explanatory 'projection onto the dual cone' clause is proved for the unregularised problem "
            "(C03_is_dual_cone_projection, C03_dualproj_unregularised: variational and closest-point forms, "
            "derived from is_min alone).",
            "Coq proof (R) + differential correspondence with exact rational QP oracle"),
    "C04": ("proof",
            "Proved in Coq for all matrices: at a minimiser (M w)_i >= 0, hence for DualProj and UPGrad "
            "(J.A(J))_i >= -reg_eps s^2 w_i for every row (props/C04.v). Also proved (C04_mgda_allowance): for every budget and epsilon, "
            "(J.A(J))_i >= -s*sqrt(|A(J)|^2-|x*|^2) with x* a min-norm point of the hull (variational inequality + "
            "Cauchy-Schwarz), and x* itself opposes no objective. Also proved: CAGrad with c>=1 opposes no objective, from optimality of the conic program's answer "
            "(first-order conditions derived, not assumed); MGDA on two rows is exactly non-conflicting after one "
            "step. The Frank-Wolfe rate is proved too (C04_mgda_rate): with epsilon = 0, |A(J)|^2 - |x*|^2 <= 8 s^2/(K+2) for every K and every "
            "upper bound s of sigma_max. The minimum-norm point x* EXISTS (C04_min_norm_point_exists: induction on the rows with one-dimensional compactness, no choice axiom; "
            "uses Classical_Prop.classic), so the MGDA theorems also hold without that hypothesis (C04_mgda_rate_unconditional, C04_mgda_allowance_unconditional). CAGrad's conic program has an optimum (C04_cagrad_program_has_an_optimum) and every optimum is non-conflicting for c>=1 (C04_cagrad_unconditional); that the SOLVER returns one is a contract. Direct oracle: the stated allowance on random matrices of "
            "all categories and exhaustively on all {-1,0,1} matrices (2x2,2x3,3x2 quick; up to 3x3 thorough), "
            "at scale 1 and at sigma_max just above norm_eps, all MGDA budgets 0..1000.",
            "DESIGN.md §8 C04, §13",
            "Trusted: as C03; exact rational min-norm point (harness) for MGDA's allowance; rounding slack "
            "1e-9 s^2 (f64) / 1e-3 s^2 (f32).",
            "Coq proof (QP part) + exhaustive small-scope oracle"),
}


CLAIMED["C18"] = ("proof",
    "Coq theorems (props/C18.v) for all sizes: MGDA's weights are a convex combination for every Gramian, epsilon "
    "and iteration budget (loop invariant); Random's softmax of ANY draw is strictly positive and sums to 1; "
    "CAGrad: |A(J)-g0|^2 = c^2|g0|^2 whatever the conic solver answered, zero vector below the threshold; PCGrad: "
    "for EVERY schedule the weight-level code equals the paper's vector-level definition (project the current "
    "vector off each conflicting row in the drawn order), no conflict => no projection; GradDrop: each coordinate "
    "is the positive- or the negative-entries sum plus leaked share according to the draw. Correspondence without "
    "RNG replication: the implementation's PCGrad output under 12/40 seeds must lie in the Minkowski sum of the "
    "model's per-row candidate sets over ALL (m-1)! orders (m<=4), GradDrop per coordinate in the model's two "
    "candidates (also for non-identity purity functions f). Also proved: every Frank-Wolfe step does not increase a^T G a, hence MGDA is never longer than the "
    "mean row. For two rows, every budget >= 1 and every epsilon the output IS the minimum-norm point of the "
    "segment (C18_mgda_two_rows).",
    "DESIGN.md §8 C18",
    "Trusted: Coq kernel + stdlib real axioms; Agg.v model; CLARABEL answer as an oracle (harness' own cvxpy solve); "
    "torch RNG not modelled (candidate sets).",
    "Coq proof + exhaustive-schedule candidate-set correspondence")
CLAIMED["C16"] = ("proof",
    "Coq theorems (props/C16.v) for all column lengths and all real corruption values: the model's column sort is "
    "a sorted permutation; if at most b entries of a column are arbitrary and the others lie in [lo,hi], the "
    "trimmed mean lies in [lo,hi] (counting argument on the sorted list); Krum selects exactly k distinct "
    "indices, each selected score <= each unselected score, weights 1/k on them and 0 elsewhere; too few rows are "
    "rejected. Fault enumeration: honest matrices (m<=7) with up to b / f rows replaced by +-2^20..2^40 x scale, "
    "garbage, copies, all admissible b,(f,k), f32/f64; Krum's selection checked for VALIDITY against float64 "
    "scores (ties are structural when m-f-2 <= 1), also with 26-32 rows sharing a large common offset. Also proved "
    "(C16_krum_neighbourhood): the code's 'drop the first of the m-f-1 smallest distances' IS 'the m-f-2 nearest "
    "OTHER rows' (the dropped entry is the zero distance of the row to itself); and Krum depends on DIFFERENCES of rows "
    "only (C16_krum_translation_invariant_selection, C16_krum_translation_equivariant): adding one vector to every row "
    "leaves distances and weights unchanged and moves the result by that vector -- run on float64 rows 2^30 + small "
    "deviations, which float32 cannot tell apart.",
    "DESIGN.md §8 C16, §15.17",
    "Trusted: Coq kernel + stdlib real axioms; Agg.v model; torch.sort/topk/cdist (compared).",
    "Coq proof + fault enumeration")
CLAIMED["C08"] = ("proof",
    "Coq theorems (props/C08.v), all sizes: for Q with orthonormal rows (orthogonal matrices, column permutations, "
    "zero-column insertions are special cases) gram(J Q) = gram(J) and (w.J).Q = w.(J.Q); hence ANY weighting that "
    "is a function of the Gramian commutes with Q (meta-theorem); each of the 12 weighted models is shown to be "
    "literally of that Gramian form (same oracle answers / draws on both sides), giving A(J Q) = A(J) Q and the "
    "row-span clause; TrimmedMean is column-local and maps a zero column to 0. ConFIG's model is not in Gramian "
    "form: for it A(J Q) = A(J) Q is proved separately with the rotated pseudo-inverse oracle Q^T B, whose contract "
    "transfers (C08_config). Direct oracle: exact rational "
    "orthogonal Q (signed permutations, Pythagorean Givens, integer Householder, dyadic Hadamard 1024x1024), "
    "column permutations, 1..2^17 zero columns, span residual, f32/f64; AGG-CORR on J and J.Q.",
    "DESIGN.md §8 C08",
    "Trusted: Coq kernel + stdlib real axioms; Agg.v (tied by AGG-CORR); that sigma_max / pinv / eigh / solver "
    "answers are functions of the Gramian (oracle arguments are the same on both sides of the theorem).",
    "Coq proof (meta-theorem + instances) + differential oracle")
CLAIMED["C09"] = ("proof",
    "Proved in Coq (props/C09.v), all sizes: for every FIXED weight vector (Mean, Sum, Constant, Random "
    "under a fixed draw) c -> A(diag(c) J) is linear in c (all c, not only positive). Also proved: PCGrad, for EVERY "
    "fixed schedule, is linear in positive c (conflict tests scale-invariant, projections independent of the scale "
    "of the row projected on); ConFIG's unit rows are scale free and its output is linear in c given the same "
    "pseudo-inverse oracle. UPGrad with reg_eps = 0 is EXACTLY linear for any oracle returning minimisers (C09_upgrad_unregularised); WITH regularisation the defect is at most sqrt(reg_eps)/2 * (s12 W12 + a s1 W1 + b s2 W2), W the summed norms "
    "of the unregularised one-hot minimisers (C09_upgrad_defect_bound, from the perturbation lemma |J^T(w_eps - w_0)|^2 <= eps s^2 |w_0|^2/4), and vanishes as reg_eps -> 0 "
    "(C09_upgrad_defect_vanishes). The direct oracle checks the bound K sqrt(reg_eps) s|w| on the ladder 1e-2..1e-12 and vanishing at 1e-16 with an empirical K "
    "(the theorem's constant involves the unregularised minimisers, which the implementation never computes). Oracle: three related scalings c1, c2, a c1 + b c2 with entries 2^-10..2^10, f32/f64.",
    "DESIGN.md §8 C09, §13",
    "Trusted: Coq kernel + stdlib real axioms; Agg.v; torch RNG under manual_seed draws independently of the "
    "matrix entries; the constant K is empirical.",
    "Coq proof (fixed-weight family, PCGrad, ConFIG) + differential oracle")
CLAIMED["C10"] = ("proof",
    "Proved in Coq (props/C10.v), all sizes: permuting rows together with their weights leaves the "
    "combination unchanged (meta-theorem; covers Constant / preference vectors permuted alongside and any "
    "equivariant weighting); Mean, Sum and TrimmedMean are invariant under any row permutation. Also proved "
    "(EquivarianceProofs.v): gram(J[p]) = G[p,p]; the constrained QP minimiser is equivariant and unique on both "
    "norm_eps branches, hence DualProj and UPGrad are invariant whenever the QP oracle answers are minimisers; "
    "Krum under pairwise distinct scores; IMTL-G for the permuted Penrose inverse. Also: MGDA when no exact tie occurs at an argmin along the run, ConFIG (pinv oracle with permuted "
    "columns), CAGrad (solver answer permuted alongside; its optimality contract transfers) and Aligned-MTL "
    "(eigenvectors permuted componentwise). 12 of the 13 aggregators of the property are now proved; GradDrop "
    "(fixed seed) and Random are covered by the fixed-weight/meta theorems. Oracle: ALL m! row permutations (m<=4 quick, <=5 thorough) for 13 aggregators with "
    "pref/weight/leak vectors permuted alongside, GradDrop under a fixed seed, f32/f64, on tie-free inputs "
    "(exact MGDA argmin ties, Krum score ties, IMTL-G/CAGrad/ConFIG points of discontinuity are skipped and counted).",
    "DESIGN.md §8 C10, §13",
    "Trusted: Coq kernel + stdlib real axioms; Agg.v; tie/conditioning filters of the harness.",
    "Coq proof (meta + 11 instances) + exhaustive-permutation oracle")
CLAIMED["C11"] = ("proof",
    "PARTIAL. Proved in Coq (props/C11.v): the 2-d/finiteness check is Ok iff 2-d and finite, else ValueError; "
    "row-count contradictions of Constant/pref vectors, GradDrop's leak, TrimmedMean, Krum yield ValueError; every "
    "model output has one entry per column; A(tJ)=tA(J) for every fixed weighting, for any weighting invariant "
    "under positive scaling of the Gramian (meta), for MGDA (all budgets), TrimmedMean, the fixed IMTL-G, PCGrad (any schedule), Krum (ties preserved), GradDrop (fixed draw), ConFIG, and - with the scaled kernel arguments on the scaled side - UPGrad, DualProj, CAGrad, Aligned-MTL; the "
    "pre-fix absolute guard of IMTL-G refutes homogeneity (witness J=[[1]], t=10^13). OBSERVED, not proved "
    "(true by construction in a functional exact model): finiteness over 27/200 orders of magnitude, dtype "
    "preservation, bitwise-unchanged input, independence from earlier calls, equal seeds => equal results; "
    "float behaviour at t=2^e over the full stated ranges; malformed stream.",
    "DESIGN.md §8 C11, §13",
    "Trusted: Coq kernel + stdlib real axioms; Agg.v; float behaviour is observed only. UPGrad/DualProj in "
    "float32 are exercised with reg_eps >= 1e-4 only (below float32 rounding quadprog may report a non-PD matrix).",
    "Coq proof (validation, shape, homogeneity family) + differential observation")
CLAIMED["C17"] = ("proof",
    "PARTIAL. Proved in Coq (props/C17.v): from the pinv contract G P = I (independent rows), IMTL-G's weights sum "
    "to one and (J.A(J))_i = |g_i|/sigma for every i (equal projections); every weighted model and ConFIG map an "
    "all-zero matrix to the zero vector. Also proved from the kernel contracts: ConFIG's cosines w_i/|Bw| (equal and positive by default, "
    "proportional to the preference vector otherwise) and length = sum of projections (pinv contract U B = I); "
    "Aligned-MTL's re-balanced rows are mutually orthogonal of squared length lambda_min and A(J) is their "
    "weighted combination (eigh contract, full rank). NOT proved: the rank-deficient Aligned-MTL case. Oracle: the defining equalities on full-row-rank matrices (condition <= 1e3, "
    "scales 2^-30..2^25, positive preference vectors, short-row-between-long-rows structures, 2^16 zero columns "
    "appended for Aligned-MTL), zero matrices of 7 shapes.",
    "DESIGN.md §8 C17, §13",
    "Trusted: Coq kernel + stdlib real axioms; Agg.v; LAPACK pinv/eigh (exact rational pinv in the harness for "
    "IMTL-G's model, float64 numpy for ConFIG/Aligned-MTL).",
    "Coq proof (IMTL-G, ConFIG, Aligned-MTL full rank, zero) + differential oracle")
CLAIMED["C19"] = ("proof",
    "Coq theorems (props/C19.v; the state-machine ones are axiom-free and hold for every number type): for ALL "
    "histories h and suffixes t, every k, every solver (an arbitrary function of the problem object, the "
    "normalised Gramian and the previous weights -- warm starts included), the outputs on t after (h; reset) are "
    "those of a newly constructed aggregator (simulation: equal step and prvs_alpha, equal problem object unless "
    "step = 0, where it is rebuilt before use); the per-call trace equals the position-based schedule (solver "
    "invoked iff (calls since reset) mod k = 0, previous weights reused unchanged otherwise); |A(J)| <= max_norm "
    "whenever max_norm > 0 (over R); the pre-fix reuse branch returns TypeError (regression witness D2). "
    "Correspondence: exhaustive histories over {3 matrices of different scales, reset} up to length 3/4 and random "
    "longer ones, k 1..4, n_tasks 2..5, max_norm in {1,0.5,0.1,0}; solver invocations counted by wrapping the "
    "public cvxpy.Problem.solve; raw weights from a max_norm=0 twin feed the model's solver oracle.",
    "DESIGN.md §8 C19",
    "Trusted: Coq kernel (+ stdlib real axioms for the norm bound only); Nash.v (tied by correspondence); ECOS/cvxpy "
    "determinism; that _init_optim_problem rebuilds the problem from prvs_alpha alone.",
    "Coq proof (all histories) + exhaustive small-scope history correspondence")

from manifest_entries2 import NEW  # noqa: E402
CLAIMED.update(NEW)
