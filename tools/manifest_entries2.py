"""Claimed checks of the autojac block: pid -> (category, text, design_ref, level_note, technique)."""
NEW = {
    "C01": ("proof",
            "Coq theorem C01_deposit (props/C01.v, over the reals) for ALL autograd programs (total-derivative "
            "blocks of any shapes, reuse, unreachable inputs), all non-empty output lists, all duplicate-free "
            "enumerations of the input set, ALL aggregators (any function), all chunk sizes, both retain flags, "
            "any pre-existing store: an accepted backward_model call adds to the .grad of every input exactly "
            "its own slice (reshaped) of A(J), J the true block Jacobian (rows = output scalars in the order "
            "given, columns = input scalars), and changes no other .grad; unreachable inputs give zero column "
            "blocks; rows follow tensor order; the deposit of any Gramian-based or fixed weighting does not "
            "depend on the enumeration order of the inputs (C05_input_order_irrelevant). TOTALITY is proved too (C01_accepts: valid "
            "arguments + inputs expecting a grad + one engine run possible + aggregator accepting => accepted, for every "
            "chunk size; C01_failure_causes lists the only ways an argument-valid call can fail). Tied to /repo by random "
            "programs whose exact integer Jacobians come from the harness' own forward-mode interpreter: "
            "implementation == exact oracle == Coq model (run under 3 enumeration orders, 5 chunk sizes), f64 "
            "exact, f32 1e-4; plus the pipeline with 10 other deterministic aggregators. The instance gap is closed by "
            "theorem: the model commutes with every map preserving 0,1,+,* (C01_executed_model_is_the_real_model).",
            "DESIGN.md §8 C01, §15",
            "Trusted: Coq kernel + stdlib real axioms; Autojac.v model (tied by correspondence); the autograd "
            "environment model (VJP w.r.t. total derivative, None iff unreachable) validated against the exact "
            "forward-mode Jacobian; vmap = row-wise vjp.",
            "Coq proof (R) + differential correspondence with exact forward-mode oracle"),
    "C02": ("proof",
            "Coq theorem C02_deposit (props/C02.v, reals) for ALL trunk/heads programs, any number and shapes of "
            "features, any number of tasks with any (possibly empty, possibly overlapping) parameter lists, all "
            "aggregators, all chunk sizes: an accepted mtl_backward_model call adds to every shared parameter its "
            "slice of A(M), row i of M = gradient of losses[i] pulled back through the features (row i is built "
            "from losses[i]), to every task parameter the gradients of the tasks listing it, in order, and "
            "changes nothing else; C02_accepts: argument checks + every engine run of the call succeeding in sequence + "
            "aggregator accepting => accepted. Correspondence: random programs (1-3 features incl. nested, 1-4 tasks, 0-3 "
            "own parameters, sharing, additive same-shape parameters), explicit/defaulted/reordered lists, "
            "parameter lists shortened or extended by the caller, Constant(distinct signed weights)/Sum/Mean, 4 chunk "
            "sizes: implementation == exact oracle == Coq model; plus UPGrad/DualProj(pref)/Krum through the pipeline. "
            "The executed QN model, mapped by Q2R, is proved equal to the RN model (C02_executed_model_is_the_real_model).",
            "DESIGN.md §8 C02, §15",
            "Trusted: as C01. The end-to-end reading is PROVED under the cut hypothesis (C02_matrix_is_jacobian: M is "
            "the true Jacobian of the losses w.r.t. the shared parameters; C02_equals_backward_on_shared: same update as "
            "backward(losses, A, inputs=shared) for any aggregator); with nested features the code back-propagates through "
            "`features` as worded.",
            "Coq proof (R) + differential correspondence with exact forward-mode oracle"),
    "C05": ("proof",
            "Coq theorems (props/C05.v, reals): for every program, weight vector (negative and zero entries "
            "included), chunk size and input enumeration, backward with Constant(w) deposits for each input "
            "exactly materialize(ag_value tensors (w split per tensor) i), i.e. the model's specification of "
            "torch.autograd.backward(tensors, grad_tensors=w split), None read as zeros; Sum = cotangent of ones, "
            "Mean = 1/m; shared parameters of mtl_backward with Constant(w) = what torch.autograd.backward(losses, "
            "grad_tensors=w) computes when the features form a cut (C05_mtl_constant); slices of any Gramian-based weighting are independent of the input order. Oracle "
            "exactly as the property words it: TWIN graphs, torchjd vs torch.autograd.backward / "
            "loss_i.backward(inputs=task_params_i), inputs passed as list/tuple/generator/iterator/dict view, "
            "f64 exact; third voice: the Coq model.",
            "DESIGN.md §8 C05, §15",
            "Trusted: as C01; the twin graphs are built from the same instruction list. Observed difference "
            "stated in the theorem: an explicitly requested unreachable input gets zeros where torch leaves None.",
            "Coq proof (R) + twin-graph differential oracle"),
    "C06": ("proof",
            "Coq theorems (props/C06.v): for EVERY transform term and both entry points, successful or not: "
            "FRAME (only keys handed to Accumulate can change), existing .grad added to in place with the same "
            "storage / created when absent, FRESH STORAGE (store_wf + extends: pre-existing storages kept, created "
            "ones new and shared with no other .grad), n identical calls = n-fold accumulation, and REFINEMENT of "
            "the abstract accumulator over ALL histories: backward (accepted or rejected), mtl_backward (accepted, or "
            "rejected for its arguments), bare engine runs, zero_(), =None and in-place edits (C06_refines_accumulator_full); "
            "n-fold accumulation also for mtl_backward. Correspondence: random histories (1-6 ops) incl. "
            "mtl_backward, pre-existing .grad (half of them views of one buffer): outcomes, final values, "
            "None-ness and the storage partition must equal History.hrun; observed on the implementation only: "
            "tensor values unchanged, .grad objects keep their identity, torch.autograd.backward never called.",
            "DESIGN.md §8 C06, §15",
            "Trusted: as C01. Tensor values are not part of the model's store (no transform can write them): "
            "that clause is an observation, not a theorem. A failed mtl_backward that is not an argument rejection (an engine "
            "failure in a later task) is not atomic and is excluded from the refinement theorem.",
            "Coq proof (invariants over all terms/histories) + history correspondence"),
    "C12": ("proof",
            "Coq theorems (props/C12.v, axiom-free): on EVERY finite graph (cyclic or not) the model of the "
            "breadth-first walk returns exactly the AccumulateGrad nodes reachable from a non-excluded root gradient edge "
            "along paths none of whose EDGES (node, output number) is excluded (soundness+completeness), without "
            "duplicates, and never runs out of fuel; an edge is excluded iff it is the gradient edge of an excluded "
            "tensor, so sibling outputs of a multi-output op stay reachable (genuine defect D4, repaired: fix cc8b49f); backward without inputs IS the explicit call on the discovered set; mtl_backward without "
            "shared_params/tasks_params IS the explicit call on leaves(features) / leaves(loss_i avoiding the "
            "features' nodes); overlapping sets are rejected with the store unchanged. Correspondence: the node "
            "graph is read off the real tensors; model walk == leaf set from the harness' op DAG; defaulted vs "
            "explicit call on twin graphs (all .grad incl. None-ness); chains of depth 8-30, diamonds, detach, "
            "multi-output ops, heads sharing interior nodes, leaves reached around the features.",
            "DESIGN.md §8 C12, §15",
            "Trusted: Coq kernel; Traverse.v model (tied by correspondence); grad_fn/output_nr/next_functions/"
            "AccumulateGrad.variable expose the graph the engine differentiates.",
            "Coq proof (graph reachability) + twin-graph correspondence"),
    "C13": ("proof",
            "Coq theorems (props/C13.v, axiom-free) for every program, row count, chunk size and store: if ONE "
            "engine run would succeed, the chunked differentiation succeeds for every chunk plan (no self-"
            "sabotage), issues exactly the plan's sweeps (all but the last retained) and frees exactly what one "
            "run with the caller's flag frees; backward/mtl_backward end with the freed set of one "
            "torch.autograd run (per task + trunk for mtl); with retain_graph=True the freed set is unchanged for "
            "ANY pipeline; follow-up success is a function of the freed set only; for mtl_backward the property's side "
            "condition (heads_separate: pairwise disjoint saved-node sets) is SUFFICIENT for acceptance with both flags and "
            "NECESSARY with retain_graph=False (two heads sharing a saved node => RuntimeError). Correspondence: 700+ histories "
            "of 2-3 calls over {backward, mtl_backward, torch.autograd.grad} x flags x chunk sizes: per-call "
            "success/RuntimeError and final .grad equal (a) the Coq model History.hrun and (b) a twin graph "
            "driven by torch.autograd alone.",
            "DESIGN.md §8 C13, §15",
            "Trusted: the engine's freeing rule (executed nodes holding saved tensors are released) is an "
            "environment model in Autojac.v (ag_sweep/exec_nodes), validated against the real engine by the "
            "histories; partial freeing inside a failed run is not modelled (histories stop at the first failure). "
            "mtl_backward with retain_graph=False is claimed under the property's side condition, which is formalised and proved exact.",
            "Coq proof (sweep/flag logic) + history correspondence vs engine and torch-only twin"),
    "C14": ("proof",
            "Coq theorems (props/C14.v, axiom-free) by structural induction on transform terms - any key "
            "universe, any nesting depth: composition accepted IFF outer.required = inner.output (as sets), "
            "conjunction IFF same required keys and disjoint outputs, Stack/Select/ordered-set rules; a wrong key "
            "set gives ValueError with the store unchanged; on success the result has exactly the declared keys "
            "and type (lca of the parts = least upper bound in the subclass order); composition associative "
            "(construction, keys, application), conjunction commutative and associative for side-effect-free members "
            "(all groupings accepted together, same keys, same mapping and type whenever two groupings both succeed; a "
            "kernel-checked counterexample shows SUCCESS itself depends on the grouping, reproduced on the implementation). "
            "Correspondence: EXHAUSTIVE over all terms of depth <= 2 on 2 keys (quick; 3 keys thorough) built "
            "from Init/Select/Diagonalize/Stack/Conjunction/Composition/Accumulate + sampled depth 3: constructor "
            "acceptance, key sets, results (type, keys, VALUES, .grad effects) on right and wrong key sets; all "
            "5 dictionary types x key/value shapes; mutators raise TypeError (observed).",
            "DESIGN.md §8 C14, §15",
            "Trusted: Coq kernel; Autojac.v; dictionary immutability is checked by "
            "the exhaustive correspondence, not proved; applications are compared on well-typed inputs.",
            "Coq proof (structural induction) + exhaustive small-scope correspondence"),
    "C15": ("proof",
            "Coq theorems (props/C15.v): Init = ones on exactly the given keys; Select; Diagonalize = one row per "
            "scalar in key order with the scalar at its own position, per-key column blocks by accumulated "
            "offsets; Stack = member i's value in row i, zeros when absent, keys = union (all for any number "
            "type); over the reals: Grad = VJP of the given cotangents (zeros when unreachable), Jac row r = Grad "
            "of row r for EVERY chunk size, VJP linear in the cotangents, chaining through a cut = end to end (at the VJP level and at the transform "
            "level: Jac o Jac = Jac, Grad o Grad = Grad, for independent chunk sizes), "
            "Aggregate = aggregator on the column-wise concatenation in key order, each key its reshaped slice. "
            "Correspondence: the real transform classes on random programs/key sets (0-d..4-d, size-1 dims), "
            "dict insertion order != key order, the SAME Jac instance on batches of different sizes, chunk sizes "
            "None,1,2,b+1: implementation == reference == Coq model, exactly.",
            "DESIGN.md §8 C15, §15",
            "Trusted: as C01.",
            "Coq proof + differential correspondence on the building blocks"),
    "C20": ("proof",
            "Coq theorems (props/C20.v, axiom-free): backward - WHATEVER makes the call fail (argument check, "
            "duplicate tensors, engine error, aggregator rejecting the Jacobian, an input not expecting a grad), "
            "every .grad is untouched (only Accumulate writes, it is last, it checks all keys first); "
            "mtl_backward - the argument checks as one boolean: failing them = ValueError with the store "
            "literally unchanged, and each listed kind of invalid argument (chunk 0, no features/losses, "
            "non-scalar loss, length mismatch, overlap, duplicates, a parameter not expecting grad) at EVERY "
            "position fails them. Fault enumeration: 17 kinds x every position x valid remainder x 3 trials on "
            "random programs with pre-existing .grad: must raise, and values / None-ness / storage pointers / "
            "version counters of all .grad unchanged; the Coq model rejects the same calls.",
            "DESIGN.md §8 C20, §9, §15",
            "Trusted: Coq kernel; Autojac.v. Exception classes are recorded, not compared. Genuine defect D1 was "
            "repaired (fix: 0bc05e7) before these theorems were stated; the model follows the repaired code.",
            "Coq proof + fault enumeration"),
}
