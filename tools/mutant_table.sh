#!/bin/bash
# tools/mutant_table.sh [ids...] — run every seeded change against the quick check of its own property
# (one at a time: /repo is patched in place and restored). Writes /verif/_scratch/mutant_table.txt
out=/verif/_scratch/mutant_table.txt
: > $out
for d in /verif/seeded/*/; do
  name=$(basename $d); pid=${name%%-*}
  if [ $# -gt 0 ] && ! echo "$@" | grep -qw "$pid"; then continue; fi
  res=$(/verif/tools/try_mutant.sh $d/patch.diff $pid 2>&1 | grep -v conda)
  ex=$(echo "$res" | grep -o "exit=[0-9]*" | tail -1)
  why=$(echo "$res" | grep "^#" | head -1 | cut -c1-160)
  echo "$name $ex $why" >> $out
done
echo DONE >> $out
