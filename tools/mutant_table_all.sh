#!/bin/bash
# tools/mutant_table_all.sh <seed>: every seeded change x the quick check of its property, 5 in parallel, each in its
# own scratch worktree; one line per change in _scratch/mutant_all_<seed>.txt
seed=${1:-98}
out=/verif/_scratch/mutant_all_$seed.txt; : > $out
run_one() {
  d=$1; seed=$2; out=$3
  name=$(basename $d); pid=${name%%-*}; wt=/tmp/wt_ma_$name
  git -C /repo worktree remove --force $wt 2>/dev/null
  git -C /repo worktree add --detach $wt HEAD -f >/dev/null 2>&1
  if ! git -C $wt apply $d/patch.diff 2>/dev/null; then echo "$name PATCH-DOES-NOT-APPLY" >> $out; git -C /repo worktree remove --force $wt; return; fi
  res=$(cd /verif && VERIF_REPO_SRC=$wt/src VERIF_SEED=$seed timeout 2400 ./check $pid --tier quick 2>&1 | grep -v conda)
  v=$(echo "$res" | grep -c "^VIOLATION"); why=$(echo "$res" | grep "^#" | head -1 | cut -c1-150)
  echo "$name violations=$v $why" >> $out
  git -C /repo worktree remove --force $wt
}
export -f run_one
ls -d /verif/seeded/*/ | xargs -P 5 -I{} bash -c "run_one {} $seed $out"
sort -o $out $out
echo DONE >> $out
