#!/bin/bash
# tools/mutant_table_sel.sh <glob-suffix> [seed]: like mutant_table_wt.sh for the seeded changes whose directory
# name matches *-<suffix> (e.g. e), 4 in parallel, each in its own scratch worktree; writes _scratch/mutant_table_<suffix>.txt
suf=$1; seed=${2:-98}
out=/verif/_scratch/mutant_table_$suf.txt; : > $out
run_one() {
  d=$1; seed=$2; out=$3
  name=$(basename $d); pid=${name%%-*}; wt=/tmp/wt_mt_$name
  git -C /repo worktree remove --force $wt 2>/dev/null
  git -C /repo worktree add --detach $wt HEAD -f >/dev/null 2>&1
  if ! git -C $wt apply $d/patch.diff 2>/dev/null; then echo "$name PATCH-DOES-NOT-APPLY" >> $out; git -C /repo worktree remove --force $wt; return; fi
  res=$(cd /verif && VERIF_REPO_SRC=$wt/src VERIF_SEED=$seed timeout 2400 ./check $pid --tier quick 2>&1 | grep -v conda)
  v=$(echo "$res" | grep -c "^VIOLATION"); why=$(echo "$res" | grep "^#" | head -1 | cut -c1-170)
  echo "$name violations=$v $why" >> $out
  git -C /repo worktree remove --force $wt
}
export -f run_one
ls -d /verif/seeded/*-$suf/ | xargs -P 4 -I{} bash -c "run_one {} $seed $out"
sort -o $out $out
echo DONE >> $out
