#!/bin/bash
# tools/mutant_table_wt.sh [ids...] — like mutant_table.sh but WITHOUT touching /repo: every seeded change
# is applied in a scratch worktree and the quick check of its property is run with VERIF_REPO_SRC.
out=/verif/_scratch/mutant_table_wt.txt
: > $out
wt=/tmp/wt_mut
git -C /repo worktree remove --force $wt 2>/dev/null
git -C /repo worktree add --detach $wt HEAD -f >/dev/null 2>&1
for d in /verif/seeded/*/; do
  name=$(basename $d); pid=${name%%-*}
  if [ $# -gt 0 ] && ! echo "$@" | grep -qw "$pid"; then continue; fi
  git -C $wt checkout -q -- . ; git -C $wt clean -fdq src
  if ! git -C $wt apply $d/patch.diff 2>/dev/null; then echo "$name PATCH-DOES-NOT-APPLY" >> $out; continue; fi
  res=$(cd /verif && VERIF_REPO_SRC=$wt/src VERIF_SEED=98 timeout 1800 ./check $pid --tier quick 2>&1 | grep -v conda)
  ex=$?
  v=$(echo "$res" | grep -c "^VIOLATION")
  why=$(echo "$res" | grep "^#" | head -1 | cut -c1-150)
  echo "$name violations=$v $why" >> $out
done
git -C /repo worktree remove --force $wt
echo DONE >> $out
