#!/bin/bash
# tools/quick_all.sh <seed>: run every quick check once with the given seed, log one line each
seed=$1
out=/verif/_scratch/quick_$seed.txt
: > $out
for id in C01 C02 C03 C04 C05 C06 C07 C08 C09 C10 C11 C12 C13 C14 C15 C16 C17 C18 C19 C20; do
  s=$(date +%s)
  res=$(cd /verif && VERIF_SEED=$seed timeout 3000 ./check $id --tier quick 2>&1 | grep -v conda | grep -E "VIOLATION|KNOWN|^#" | head -3)
  e=$(( $(date +%s) - s ))
  echo "$id seed=$seed ${e}s :: ${res:-clean}" >> $out
done
echo DONE >> $out
