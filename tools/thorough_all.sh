#!/bin/bash
# tools/thorough_all.sh <seed> <ids...>: run thorough checks one after the other, log summary lines
seed=$1; shift
out=/verif/_scratch/thorough_$seed.txt
for id in "$@"; do
  s=$(date +%s)
  res=$(cd /verif && VERIF_SEED=$seed timeout 5400 ./check $id --tier thorough 2>&1 | grep -v conda | grep -E "VIOLATION|KNOWN|^#" | head -4)
  e=$(( $(date +%s) - s ))
  echo "$id seed=$seed ${e}s :: ${res:-clean}" >> $out
done
echo DONE >> $out
