#!/bin/bash
# tools/try_mutant.sh <patch.diff> <check id> [more check ids]  — apply a seeded change to /repo,
# run the quick checks, always undo.  Never commits anything to /repo.
set -u
patch=$1; shift
cd /repo || exit 2
if [ -n "$(git status --short)" ]; then echo "/repo not clean"; exit 2; fi
git apply "$patch" || { echo "patch does not apply"; exit 2; }
trap 'git -C /repo checkout -- . ; git -C /repo clean -fdq src' EXIT
for id in "$@"; do
  echo "=== $id on $(basename $(dirname $patch))/$(basename $patch)"
  ( cd /verif && timeout 1800 ./check "$id" --tier quick 2>&1 | grep -v conda | grep -E "VIOLATION|KNOWN|^#" | head -6 ; echo "exit=${PIPESTATUS[0]}" )
done
