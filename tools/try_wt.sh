#!/bin/bash
# tools/try_wt.sh <worktree> <check ids...>: run quick checks against the source in a scratch worktree
# (no change to /repo; evidence/replays written under a throw-away seed tag 99)
wt=$1; shift
for id in "$@"; do
  echo "=== $id on $wt"
  ( cd /verif && VERIF_REPO_SRC=$wt/src VERIF_SEED=99 timeout 1800 ./check "$id" --tier quick 2>&1 | grep -v conda | grep -E "VIOLATION|KNOWN|^#" | head -4 ; echo "exit=${PIPESTATUS[0]}" )
done
